"""Engine M: rustc MIR (text of -Zunpretty=mir) -> symbolic execution -> SMT-LIB.

Scope: loop-free integer code (casts, shifts/masks by constants, checked arithmetic,
division, comparisons, switchInt, asserts, enum construction/projection, calls to other
functions of the same dump (inlined) or to a small set of modelled std functions).
A `for` loop over `slice.iter().enumerate()` is executed for ONE arbitrary iteration: the
first `Iterator::next` forks into None (loop exit) and Some(fresh index, fresh element);
reaching `next` again ends the path (all values of the next iteration are fresh again and
no term of the iteration depends on loop-carried state: this is checked, see `LoopDep`).

Every MIR `assert` becomes a proof obligation ("no panic") under the path condition and is
then assumed.  Events of interest (slice indexing, Vec::push) are recorded with their path
condition so a driver can state properties over them.

Terms are typed trees; two printers: QF_BV (bit-precise) and Int (machine integers as
mathematical integers in range, every wrap explicit with mod 2^k).
"""
import re

# ------------------------------------------------------------------ terms

INT_TYPES = {
    "u8": (8, False), "u16": (16, False), "u32": (32, False), "u64": (64, False), "u128": (128, False), "usize": (64, False),
    "i8": (8, True), "i16": (16, True), "i32": (32, True), "i64": (64, True), "i128": (128, True), "isize": (64, True),
}


class T:
    """term: op, ty, args"""
    __slots__ = ("op", "ty", "args")

    def __init__(self, op, ty, *args):
        self.op = op
        self.ty = ty
        self.args = args

    def __repr__(self):
        return "%s:%s(%s)" % (self.op, self.ty, ",".join(map(repr, self.args)))


def const(ty, v):
    return T("const", ty, v)


def var(ty, name):
    return T("var", ty, name)


def tnot(a):
    if a.op == "const":
        return const("bool", not a.args[0])
    return T("not", "bool", a)


def tand(*xs):
    xs = [x for x in xs if not (x.op == "const" and x.args[0] is True)]
    if not xs:
        return const("bool", True)
    if len(xs) == 1:
        return xs[0]
    return T("and", "bool", *xs)


def free_vars(t, acc=None):
    if acc is None:
        acc = set()
    if isinstance(t, T):
        if t.op == "var":
            acc.add((t.args[0], t.ty))
        else:
            for a in t.args:
                free_vars(a, acc)
    return acc


class Unsupported(Exception):
    pass


# ------------------------------------------------------------------ printers

class _Memo:
    """shared sub-terms are emitted once as (define-fun tN () Sort body)"""

    def _init_memo(self):
        self.names = {}
        self.defs = []
        self.keep = []

    def p(self, t):
        if t.op in ("const", "var"):
            return self._p(t)
        k = id(t)
        if k in self.names:
            return self.names[k]
        if k in getattr(self, "abstract", {}):
            # cut point: the term is replaced by a fresh variable of its type (over-approximation)
            name = self.abstract[k]
            self.names[k] = name
            self.keep.append(t)
            self.defs.append("(declare-const %s %s)" % (name, self.sort(t.ty)))
            if isinstance(self, IntPrinter):
                self.defs.append(self.range_assert(name, t.ty))
            return name
        body = self._p(t)
        name = "t%d" % (len(self.names) + 1)
        self.names[k] = name
        self.keep.append(t)
        self.defs.append("(define-fun %s () %s %s)" % (name, self.sort(t.ty), body))
        return name


class BVPrinter(_Memo):
    logic = "QF_BV"

    def __init__(self):
        self._init_memo()

    def sort(self, ty):
        if ty == "bool":
            return "Bool"
        return "(_ BitVec %d)" % INT_TYPES[ty][0]

    def lit(self, ty, v):
        if ty == "bool":
            return "true" if v else "false"
        w = INT_TYPES[ty][0]
        return "(_ bv%d %d)" % (v % (1 << w), w)

    def _p(self, t):
        op = t.op
        if op == "const":
            return self.lit(t.ty, t.args[0])
        if op == "var":
            return t.args[0]
        if op == "not":
            return "(not %s)" % self.p(t.args[0])
        if op == "and":
            return "(and %s)" % " ".join(self.p(a) for a in t.args)
        if op == "or":
            return "(or %s)" % " ".join(self.p(a) for a in t.args)
        if op == "ite":
            return "(ite %s %s %s)" % tuple(self.p(a) for a in t.args)
        a = t.args[0]
        if op == "ispow2":
            A = self.p(a)
            return "(and (not (= %s %s)) (= (bvand %s (bvsub %s %s)) %s))" % (A, self.lit(a.ty, 0), A, A, self.lit(a.ty, 1), self.lit(a.ty, 0))
        if op == "cast":
            fw, fs = INT_TYPES[a.ty] if a.ty != "bool" else (1, False)
            tw, _ = INT_TYPES[t.ty]
            if a.ty == "bool":
                return "(ite %s %s %s)" % (self.p(a), self.lit(t.ty, 1), self.lit(t.ty, 0))
            if tw == fw:
                return self.p(a)
            if tw < fw:
                return "((_ extract %d 0) %s)" % (tw - 1, self.p(a))
            return "((_ %s %d) %s)" % ("sign_extend" if fs else "zero_extend", tw - fw, self.p(a))
        b = t.args[1]
        w, sg = INT_TYPES[a.ty] if a.ty != "bool" else (0, False)
        A, B = self.p(a), self.p(b)
        if op in ("Shr", "Shl"):
            # shift amount may have another type: resize it to the width of a
            bw = INT_TYPES[b.ty][0]
            if bw < w:
                B = "((_ zero_extend %d) %s)" % (w - bw, B)
            elif bw > w:
                B = "((_ extract %d 0) %s)" % (w - 1, B)
            if op == "Shl":
                return "(bvshl %s %s)" % (A, B)
            return "(%s %s %s)" % ("bvashr" if sg else "bvlshr", A, B)
        simple = {"Add": "bvadd", "Sub": "bvsub", "Mul": "bvmul", "BitAnd": "bvand", "BitOr": "bvor", "BitXor": "bvxor"}
        if op in simple:
            if a.ty == "bool":
                return "(%s %s %s)" % ({"BitAnd": "and", "BitOr": "or", "BitXor": "xor"}[op], A, B)
            return "(%s %s %s)" % (simple[op], A, B)
        if op == "Div":
            return "(%s %s %s)" % ("bvsdiv" if sg else "bvudiv", A, B)
        if op == "Rem":
            return "(%s %s %s)" % ("bvsrem" if sg else "bvurem", A, B)
        if op == "Eq":
            return "(= %s %s)" % (A, B)
        if op == "Ne":
            return "(not (= %s %s))" % (A, B)
        cmpu = {"Lt": "bvult", "Le": "bvule", "Gt": "bvugt", "Ge": "bvuge"}
        cmps = {"Lt": "bvslt", "Le": "bvsle", "Gt": "bvsgt", "Ge": "bvsge"}
        if op in cmpu:
            return "(%s %s %s)" % ((cmps if sg else cmpu)[op], A, B)
        if op == "AddOvf":
            if sg:
                return "(let ((r (bvadd %s %s))) (and (= (bvslt %s %s) (bvslt %s %s)) (not (= (bvslt r %s) (bvslt %s %s)))))" % (
                    A, B, A, self.lit(a.ty, 0), B, self.lit(a.ty, 0), self.lit(a.ty, 0), A, self.lit(a.ty, 0))
            return "(bvult (bvadd %s %s) %s)" % (A, B, A)
        if op == "SubOvf":
            if sg:
                raise Unsupported("signed SubOvf")
            return "(bvult %s %s)" % (A, B)
        if op == "MulOvf":
            if sg:
                raise Unsupported("signed MulOvf")
            return "(not (= ((_ extract %d %d) (bvmul ((_ zero_extend %d) %s) ((_ zero_extend %d) %s))) (_ bv0 %d)))" % (
                2 * w - 1, w, w, A, w, B, w)
        raise Unsupported("BV printer: " + op)


class IntPrinter(_Memo):
    """Machine integers as mathematical Ints constrained to their range."""
    logic = "ALL"

    def __init__(self, native_divmod=True, abstract=None):
        self._init_memo()  # defs also holds the division lemmas
        self.ndiv = 0
        self.divcache = {}
        self.native_divmod = native_divmod
        self.abstract = abstract or {}

    def sort(self, ty):
        return "Bool" if ty == "bool" else "Int"

    def lit(self, ty, v):
        if ty == "bool":
            return "true" if v else "false"
        return str(v) if v >= 0 else "(- %d)" % (-v)

    def range_assert(self, name, ty):
        if ty == "bool":
            return ""
        w, sg = INT_TYPES[ty]
        lo, hi = (-(1 << (w - 1)), (1 << (w - 1)) - 1) if sg else (0, (1 << w) - 1)
        return "(assert (and (<= %s %s) (<= %s %s)))" % (self.lit(ty, lo), name, name, self.lit(ty, hi))

    def wrap(self, ty, e):
        w, sg = INT_TYPES[ty]
        if sg:
            h = 1 << (w - 1)
            return "(- (mod (+ %s %d) %d) %d)" % (e, h, 1 << w, h)
        return "(mod %s %d)" % (e, 1 << w)

    def _p(self, t):
        op = t.op
        if op == "const":
            return self.lit(t.ty, t.args[0])
        if op == "var":
            return t.args[0]
        if op == "not":
            return "(not %s)" % self.p(t.args[0])
        if op == "and":
            return "(and %s)" % " ".join(self.p(a) for a in t.args)
        if op == "or":
            return "(or %s)" % " ".join(self.p(a) for a in t.args)
        if op == "ite":
            return "(ite %s %s %s)" % tuple(self.p(a) for a in t.args)
        a = t.args[0]
        if op == "ispow2":
            A = self.p(a)
            return "(or %s)" % " ".join("(= %s %d)" % (A, 1 << k) for k in range(INT_TYPES[a.ty][0] - (1 if INT_TYPES[a.ty][1] else 0)))
        if op == "cast":
            if a.ty == "bool":
                return "(ite %s 1 0)" % self.p(a)
            fw, fs = INT_TYPES[a.ty]
            tw, ts = INT_TYPES[t.ty]
            if not fs and ((not ts and tw >= fw) or (ts and tw > fw)):
                return self.p(a)
            if fs and ts and tw >= fw:
                return self.p(a)
            if a.op == "const":
                v = a.args[0] % (1 << tw)
                if ts and v >= (1 << (tw - 1)):
                    v -= 1 << tw
                return self.lit(t.ty, v)
            return self.wrap(t.ty, self.p(a))
        b = t.args[1]
        A, B = self.p(a), self.p(b)
        ty = a.ty
        if op in ("Add", "Sub", "Mul"):
            e = "(%s %s %s)" % ({"Add": "+", "Sub": "-", "Mul": "*"}[op], A, B)
            return self.wrap(ty, e)
        if op == "Shr":
            w, sg = INT_TYPES[ty]
            if b.op != "const":
                raise Unsupported("Int printer: shift by non-constant")
            if sg:
                raise Unsupported("Int printer: signed shift")
            return "(div %s %d)" % (A, 1 << b.args[0])
        if op == "Shl":
            if b.op != "const":
                raise Unsupported("Int printer: shift by non-constant")
            return self.wrap(ty, "(* %s %d)" % (A, 1 << b.args[0]))
        if op == "BitAnd":
            # only masks of the form 2^k-1 (either side constant)
            for x, y in ((a, b), (b, a)):
                if not free_vars(y):
                    yv = eval_term(y, {})
                    if yv >= 0 and (yv & (yv + 1)) == 0:
                        return "(mod %s %d)" % (self.p(x), yv + 1)
            raise Unsupported("Int printer: BitAnd with non-mask")
        if op in ("Div", "Rem"):
            w, sg = INT_TYPES[ty]
            if sg:
                raise Unsupported("Int printer: signed division")
            if self.native_divmod:
                # SMT-LIB div/mod are Euclidean: equal to unsigned machine division whenever B > 0;
                # B == 0 is excluded by the MIR division-by-zero assert that precedes every Div/Rem
                return "(%s %s %s)" % ("div" if op == "Div" else "mod", A, B)
            # fresh quotient/remainder + division lemma (definitional when B > 0)
            key = (id(a), id(b))
            if key in self.divcache:
                q, r = self.divcache[key]
                return q if op == "Div" else r
            self.ndiv += 1
            q, r = "divq%d" % self.ndiv, "divr%d" % self.ndiv
            self.divcache[key] = (q, r)
            self.defs.append("(declare-const %s Int)(declare-const %s Int)" % (q, r))
            self.defs.append("(assert (=> (> %s 0) (and (= %s (+ (* %s %s) %s)) (<= 0 %s) (< %s %s) (<= 0 %s))))" % (B, A, q, B, r, r, r, B, q))
            return q if op == "Div" else r
        if op == "Eq":
            return "(= %s %s)" % (A, B)
        if op == "Ne":
            return "(not (= %s %s))" % (A, B)
        cmp_ = {"Lt": "<", "Le": "<=", "Gt": ">", "Ge": ">="}
        if op in cmp_:
            return "(%s %s %s)" % (cmp_[op], A, B)
        w, sg = INT_TYPES[ty]
        lo, hi = (-(1 << (w - 1)), (1 << (w - 1)) - 1) if sg else (0, (1 << w) - 1)
        if op in ("AddOvf", "SubOvf", "MulOvf"):
            e = "(%s %s %s)" % ({"AddOvf": "+", "SubOvf": "-", "MulOvf": "*"}[op], A, B)
            return "(or (< %s %s) (> %s %s))" % (e, self.lit(ty, lo), e, self.lit(ty, hi))
        raise Unsupported("Int printer: " + op)


# ------------------------------------------------------------------ MIR parsing

class Fn:
    def __init__(self, name, args, ret):
        self.name = name
        self.args = args          # [(local_no, type)]
        self.ret = ret
        self.local_ty = {}
        self.blocks = {}          # bbN -> [lines]


_fn_re = re.compile(r"^fn (.+?)\((.*)\) -> (.+?) \{$")


def split_top(s, sep=","):
    """split on sep at nesting depth 0 of () [] {} <>; string literals respected"""
    out, cur, depth, i, n = [], [], 0, 0, len(s)
    while i < n:
        c = s[i]
        if c == '"':
            j = i + 1
            while j < n and s[j] != '"':
                if s[j] == "\\":
                    j += 1
                j += 1
            cur.append(s[i:j + 1])
            i = j + 1
            continue
        if c in "([{<":
            depth += 1
        elif c in ")]}":
            depth -= 1
        elif c == ">" and i > 0 and s[i - 1] != "-" and s[i - 1] != "=":
            depth -= 1
        if c == sep and depth == 0:
            out.append("".join(cur).strip())
            cur = []
        else:
            cur.append(c)
        i += 1
    last = "".join(cur).strip()
    if last:
        out.append(last)
    return out


def parse_mir(text):
    fns = {}
    cur = None
    bb = None
    for raw in text.split("\n"):
        line = raw.rstrip()
        s = line.strip()
        m = _fn_re.match(line)
        if m and not line.startswith(" "):
            name = m.group(1)
            args = []
            for a in split_top(m.group(2)):
                mm = re.match(r"_(\d+): (.+)$", a)
                args.append((int(mm.group(1)), mm.group(2)))
            cur = Fn(name, args, m.group(3))
            for no, ty in args:
                cur.local_ty[no] = ty
            cur.local_ty[0] = m.group(3)
            fns[name] = cur
            bb = None
            continue
        if cur is None:
            continue
        if line == "}":
            cur = None
            continue
        mm = re.match(r"let (?:mut )?_(\d+): (.+);$", s)
        if mm and bb is None:
            cur.local_ty[int(mm.group(1))] = mm.group(2)
            continue
        mm = re.match(r"(bb\d+)(?: \(cleanup\))?: \{$", s)
        if mm:
            bb = mm.group(1)
            cur.blocks[bb] = []
            continue
        if s == "}" and bb is not None:
            bb = None
            continue
        if bb is not None and s:
            cur.blocks[bb].append(s)
    return fns


def short_name(fn_name):
    """`<impl at src/lib.rs:15:1: 15:24>::quotient` -> `quotient`"""
    return fn_name.rsplit("::", 1)[-1]


# ------------------------------------------------------------------ symbolic execution

class Path:
    def __init__(self):
        self.pc = []              # list of bool terms
        self.locals = {}
        self.fresh = 0
        self.loop_started = set()


class Result:
    """outcome of executing an entry function"""
    def __init__(self):
        self.paths = []           # (pc_terms, return_value, events)
        self.obligations = []     # (pc_terms, cond_term, message, where)
        self.inputs = []          # fresh variables (name, ty, role)
        self.functions = set()
        self.models = set()
        self.cuts = []            # (callee, return-value term) of every inlined call: candidate cut points


class Executor:
    def __init__(self, fns, enums, max_steps=20000):
        self.fns = fns
        self.by_short = {}
        for k, f in fns.items():
            self.by_short.setdefault(short_name(k), []).append(f)
        self.enums = enums        # enum name -> [(variant, [field names])]
        self.res = Result()
        self.nfresh = 0
        self.steps = 0
        self.max_steps = max_steps

    # ---- values
    def fresh(self, ty, role):
        self.nfresh += 1
        name = "%s_%d" % (role, self.nfresh)
        self.res.inputs.append((name, ty, role))
        return var(ty, name)

    # ---- operand / place parsing
    def parse_const(self, s):
        s = s.strip()
        if s in ("true", "false"):
            return const("bool", s == "true")
        m = re.match(r"^(-?\d[\d_]*)_([iu](?:8|16|32|64|128|size))$", s)
        if m:
            return const(m.group(2), int(m.group(1).replace("_", "")))
        m = re.match(r"^core::num::<impl ([iu]\w+)>::(MAX|MIN)$", s)
        if m:
            ty = m.group(1)
            w, sg = INT_TYPES[ty]
            if m.group(2) == "MAX":
                return const(ty, (1 << (w - 1)) - 1 if sg else (1 << w) - 1)
            return const(ty, -(1 << (w - 1)) if sg else 0)
        raise Unsupported("constant: " + s)

    def read_place(self, st, s):
        s = s.strip()
        m = re.match(r"^_(\d+)$", s)
        if m:
            no = int(m.group(1))
            if no not in st["locals"]:
                raise Unsupported("read of unset local _%d" % no)
            return st["locals"][no]
        if s.startswith("(") and s.endswith(")"):
            inner = s[1:-1].strip()
            if inner.startswith("*"):
                r = self.read_place(st, inner[1:])
                if not (isinstance(r, tuple) and r[0] == "ref"):
                    raise Unsupported("deref of non-ref " + repr(r)[:80])
                tgt = r[1]
                if tgt[0] == "val":
                    return tgt[1]
                if tgt[0] == "local":
                    return st["locals"][tgt[1]]
                if tgt[0] == "slice":
                    return tgt
                raise Unsupported("deref target")
            # (P as Variant)
            parts = self._split_as(inner)
            if parts:
                base, variant = parts
                v = self.read_place(st, base)
                if isinstance(v, tuple) and v[0] == "option":
                    if variant == "Some" and v[1] is not None:
                        return ("tuple", [v[1]])
                    raise Unsupported("downcast of option to inactive variant")
                if not (isinstance(v, tuple) and v[0] == "enum"):
                    raise Unsupported("downcast of non-enum")
                if v[1] != variant:
                    raise Unsupported("downcast to inactive variant %s (is %s)" % (variant, v[1]))
                return v
            # (P.k: T)
            mm = re.match(r"^(.*)\.(\d+): (.+)$", inner)
            if mm:
                base = self.read_place(st, mm.group(1))
                k = int(mm.group(2))
                if isinstance(base, tuple) and base[0] == "tuple":
                    return base[1][k]
                if isinstance(base, tuple) and base[0] == "enum":
                    return base[2][k]
                raise Unsupported("field of " + repr(base)[:60])
        raise Unsupported("place: " + s)

    def _split_as(self, inner):
        depth = 0
        for i, c in enumerate(inner):
            if c in "([":
                depth += 1
            elif c in ")]":
                depth -= 1
            elif depth == 0 and inner.startswith(" as ", i):
                variant = inner[i + 4:].strip()
                if re.match(r"^\w+$", variant):
                    return inner[:i].strip(), variant
        return None

    def operand(self, st, s):
        s = s.strip()
        if s.startswith("const "):
            return self.parse_const(s[6:])
        if s.startswith("copy ") or s.startswith("move "):
            return self.read_place(st, s[5:])
        return self.read_place(st, s)

    def write_place(self, st, s, v):
        m = re.match(r"^_(\d+)$", s.strip())
        if not m:
            raise Unsupported("write to place " + s)
        st["locals"][int(m.group(1))] = v

    # ---- rvalues
    BIN = ("Add", "Sub", "Mul", "Div", "Rem", "BitAnd", "BitOr", "BitXor", "Shl", "Shr", "Eq", "Ne", "Lt", "Le", "Gt", "Ge")

    def rvalue(self, st, fn, dst_no, s):
        s = s.strip()
        m = re.match(r"^(\w+)\((.*)\)$", s)
        if m and (m.group(1) in self.BIN or m.group(1).endswith("WithOverflow") or m.group(1) in ("Not", "Neg", "discriminant", "PtrMetadata")):
            op = m.group(1)
            args = split_top(m.group(2))
            if op == "discriminant":
                v = self.read_place(st, args[0])
                if isinstance(v, tuple) and v[0] == "enum":
                    return const("isize", v[3])
                if isinstance(v, tuple) and v[0] == "option":
                    return const("isize", 1 if v[1] is not None else 0)
                raise Unsupported("discriminant of symbolic value")
            if op == "PtrMetadata":
                v = self.operand(st, args[0])
                if isinstance(v, tuple) and v[0] == "ref" and v[1][0] == "slice":
                    return v[1][2]
                raise Unsupported("PtrMetadata of non-slice")
            if op == "Not":
                a = self.operand(st, args[0])
                if a.ty == "bool":
                    return tnot(a)
                raise Unsupported("bitwise Not")
            a = self.operand(st, args[0])
            b = self.operand(st, args[1])
            if op.endswith("WithOverflow"):
                base = op[:-len("WithOverflow")]
                return ("tuple", [T(base, a.ty, a, b), T(base + "Ovf", "bool", a, b)])
            if op in ("Eq", "Ne", "Lt", "Le", "Gt", "Ge"):
                return T(op, "bool", a, b)
            return T(op, a.ty, a, b)
        m = re.match(r"^(.*) as (\w+) \(IntToInt\)$", s)
        if m:
            a = self.operand(st, m.group(1))
            return T("cast", m.group(2), a)
        if s.startswith("&raw const (fake) ") or s.startswith("&raw const ") or s.startswith("&raw mut "):
            inner = s.split(") ", 1)[1] if "(fake)" in s else s.split(" ", 2)[2]
            v = self.read_place(st, inner)
            if isinstance(v, tuple) and v[0] == "slice":
                return ("ref", v)
            raise Unsupported("raw ref")
        if s.startswith("&mut ") or s.startswith("&"):
            inner = s[5:] if s.startswith("&mut ") else s[1:]
            inner = inner.strip()
            m = re.match(r"^_(\d+)$", inner)
            if m:
                return ("ref", ("local", int(m.group(1))))
            m = re.match(r"^\(\*_(\d+)\)\[_(\d+)\]$", inner)
            if m:
                sl = self.read_place(st, "(*_%s)" % m.group(1))
                idx = st["locals"][int(m.group(2))]
                st["events"].append(("index", sl[1], idx, list(st["pc"])))
                return ("ref", ("elem", sl[1], idx))
            raise Unsupported("borrow " + inner)
        # aggregate: Enum::Variant { f: op, .. }
        m = re.match(r"^(\w+)::(\w+) \{(.*)\}$", s)
        if m and m.group(1) in self.enums:
            en, variant = m.group(1), m.group(2)
            variants = self.enums[en]
            vi = [i for i, (vn, _) in enumerate(variants) if vn == variant][0]
            fields = {}
            for part in split_top(m.group(3)):
                fname, fop = part.split(":", 1)
                fields[variants[vi][1].index(fname.strip())] = self.operand(st, fop)
            return ("enum", variant, fields, vi)
        if s.startswith("copy ") or s.startswith("move ") or s.startswith("const "):
            return self.operand(st, s)
        raise Unsupported("rvalue: " + s)

    # ---- std models
    def call_model(self, st, callee, args, fn):
        name = callee
        self.res.models.add(name)
        if re.match(r"^core::num::<impl u\w+>::is_power_of_two$", name):
            return [([], T("ispow2", "bool", args[0]))]
        m = re.match(r"^<(u\w+) as From<(u\w+)>>::from$", name)
        if m:
            return [([], T("cast", m.group(1), args[0]))]
        if re.match(r"^core::slice::<impl \[\w+\]>::iter$", name):
            return [([], ("iter", args[0]))]
        if name.endswith("as Iterator>::enumerate") or name.endswith("as IntoIterator>::into_iter"):
            return [([], args[0])]
        if name.endswith("as Iterator>::next"):
            r = args[0]
            key = r[1]
            if key in st["loop_started"]:
                return "LOOP_BACK"
            st["loop_started"].add(key)
            it = st["locals"][key[1]] if key[0] == "local" else None
            if not (isinstance(it, tuple) and it[0] == "iter"):
                raise Unsupported("next on unknown iterator")
            sl = it[1]
            if not (isinstance(sl, tuple) and sl[0] == "ref" and sl[1][0] == "slice"):
                raise Unsupported("iterator over non-slice")
            slname, sllen, elty = sl[1][1], sl[1][2], sl[1][3]
            idx = self.fresh("usize", "iter_index")
            el = self.fresh(elty, "iter_elem")
            some = ("option", ("tuple", [idx, ("ref", ("val", el))]))
            # Some(..): index < len ; None: exit
            return [([T("Lt", "bool", idx, sllen)], some), ([], ("option", None))]
        if re.match(r"^Vec::<\w+>::push$", name):
            tgt = args[0]
            st["events"].append(("push", tgt[1], args[1], list(st["pc"])))
            return [([], ("unit",))]
        self.res.models.discard(name)
        return None

    def read_option_place(self, v, variant):
        return v

    # ---- execution
    def run(self, entry_short, arg_values, pc=None):
        fn = self.pick(entry_short)
        st = {"pc": list(pc or []), "events": [], "loop_started": set()}
        outs = self.exec_fn(fn, arg_values, st)
        for st2, rv in outs:
            self.res.paths.append((list(st2["pc"]), rv, list(st2["events"])))
        return self.res

    def pick(self, short):
        c = self.by_short.get(short)
        if not c:
            raise Unsupported("function not in MIR dump: " + short)
        if len(c) > 1:
            raise Unsupported("ambiguous function name: " + short)
        return c[0]

    def exec_fn(self, fn, arg_values, st):
        self.res.functions.add(short_name(fn.name))
        frame = {"pc": st["pc"], "events": st["events"], "loop_started": st["loop_started"], "locals": {}}
        for (no, ty), v in zip(fn.args, arg_values):
            frame["locals"][no] = v
        return self.exec_block(fn, "bb0", frame)

    def clone(self, st):
        return {"pc": list(st["pc"]), "events": list(st["events"]), "loop_started": set(st["loop_started"]),
                "locals": dict(st["locals"])}

    def exec_block(self, fn, bb, st):
        """returns list of (state, return_value)"""
        while True:
            self.steps += 1
            if self.steps > self.max_steps:
                raise Unsupported("step limit")
            lines = fn.blocks[bb]
            nxt = None
            for s in lines:
                s = s.rstrip(";").strip() if not s.endswith("];") else s[:-1].strip()
                if s.startswith("StorageLive") or s.startswith("StorageDead") or s.startswith("nop") or s.startswith("FakeRead") or s.startswith("PlaceMention") or s.startswith("//"):
                    continue
                if s == "return":
                    return [(st, st["locals"].get(0, ("unit",)))]
                if s == "unreachable":
                    raise Unsupported("reached `unreachable`")
                m = re.match(r"^goto -> (bb\d+)$", s)
                if m:
                    nxt = m.group(1)
                    break
                m = re.match(r"^switchInt\((.*)\) -> \[(.*)\]$", s)
                if m:
                    v = self.operand(st, m.group(1))
                    targets = []
                    other = None
                    for part in split_top(m.group(2)):
                        k, t = part.split(":")
                        if k.strip() == "otherwise":
                            other = t.strip()
                        else:
                            targets.append((int(k), t.strip()))
                    if v.op == "const":
                        cv = v.args[0]
                        cv = int(cv) if not isinstance(cv, bool) else (1 if cv else 0)
                        dest = [t for k, t in targets if k == cv]
                        nxt = dest[0] if dest else other
                        break
                    outs = []
                    neg = []
                    for k, t in targets:
                        st2 = self.clone(st)
                        if v.ty == "bool":
                            c = v if k == 1 else tnot(v)
                        else:
                            c = T("Eq", "bool", v, const(v.ty, k))
                        st2["pc"].append(c)
                        neg.append(tnot(c))
                        outs += self.exec_block(fn, t, st2)
                    if other is not None:
                        st2 = self.clone(st)
                        st2["pc"] += neg
                        outs += self.exec_block(fn, other, st2)
                    return outs
                m = re.match(r"^assert\((.*)\) -> \[success: (bb\d+), unwind[^\]]*\]$", s)
                if m:
                    parts = split_top(m.group(1))
                    c = parts[0]
                    negate = c.startswith("!")
                    cv = self.operand(st, c[1:] if negate else c)
                    if negate:
                        cv = tnot(cv)
                    msg = parts[1] if len(parts) > 1 else ""
                    self.res.obligations.append((list(st["pc"]), cv, msg.strip('"'), "%s/%s" % (short_name(fn.name), bb)))
                    st["pc"].append(cv)
                    nxt = m.group(2)
                    break
                m = re.match(r"^(_\d+) = (.+?)\((.*)\) -> \[return: (bb\d+), unwind[^\]]*\]$", s)
                if m and not re.match(r"^(\w+WithOverflow|" + "|".join(self.BIN) + r"|Not|Neg|discriminant|PtrMetadata)$", m.group(2)):
                    dst, callee, argstr, ret = m.groups()
                    args = [self.operand(st, a) for a in split_top(argstr)]
                    r = self.call_model(st, callee, args, fn)
                    if r == "LOOP_BACK":
                        return [(st, ("loop_back",))]
                    succ = []
                    if r is None:
                        short = callee.rsplit("::", 1)[-1]
                        target = self.pick(short)
                        sub = {"pc": list(st["pc"]), "events": list(st["events"]), "loop_started": set(st["loop_started"])}
                        for o_st, o_val in self.exec_fn(target, args, sub):
                            if isinstance(o_val, T):
                                self.res.cuts.append((short, o_val))
                            st2 = self.clone(st)
                            st2["pc"], st2["events"], st2["loop_started"] = o_st["pc"], o_st["events"], o_st["loop_started"]
                            succ.append((st2, o_val))
                    else:
                        for extra, val in r:
                            st2 = self.clone(st) if len(r) > 1 else st
                            st2["pc"] += extra
                            succ.append((st2, val))
                    if len(succ) == 1:
                        st = succ[0][0]
                        self.write_place(st, dst, succ[0][1])
                        nxt = ret
                        break
                    outs = []
                    for st2, val in succ:
                        self.write_place(st2, dst, val)
                        outs += self.exec_block(fn, ret, st2)
                    return outs
                m = re.match(r"^(_\d+) = (.+)$", s)
                if m:
                    no = int(m.group(1)[1:])
                    self.write_place(st, m.group(1), self.rvalue(st, fn, no, m.group(2)))
                    continue
                raise Unsupported("statement: " + s)
            if nxt is None:
                raise Unsupported("block %s falls through" % bb)
            bb = nxt


def parse_enum(item_text):
    """`enum X { A { f: T }, B { g: T, h: U } }` -> (name, [(variant, [fields])])"""
    m = re.search(r"enum\s+(\w+)\s*\{(.*)\}\s*$", item_text, re.S)
    if not m:
        raise Unsupported("enum syntax")
    name, body = m.group(1), m.group(2)
    variants = []
    for part in split_top(body):
        part = re.sub(r"///.*", "", part).strip()
        if not part:
            continue
        mm = re.match(r"^(\w+)\s*\{(.*)\}$", part, re.S)
        if mm:
            fields = [f.split(":")[0].strip() for f in split_top(mm.group(2)) if f.strip()]
            variants.append((mm.group(1), fields))
        else:
            mm = re.match(r"^(\w+)", part)
            variants.append((mm.group(1), []))
    return name, variants


def script(printer, inputs, assumptions, goal_neg, extra_vars=()):
    """Build an SMT-LIB script: declare inputs, assert assumptions, assert negated goal."""
    lines = ["(set-logic %s)" % printer.logic]
    body = []
    for name, ty in inputs:
        lines.append("(declare-const %s %s)" % (name, printer.sort(ty)))
        if isinstance(printer, IntPrinter):
            ra = printer.range_assert(name, ty)
            if ra:
                lines.append(ra)
    for a in assumptions:
        body.append("(assert %s)" % printer.p(a))
    if goal_neg is not None:
        body.append("(assert %s)" % printer.p(goal_neg))
    lines += printer.defs
    return "\n".join(lines + body) + "\n"


# ------------------------------------------------------------------ concrete evaluation of terms
# (used to validate the translator against the natively compiled function and to
#  pre-check solver models before the native replay)

def _norm(ty, v):
    if ty == "bool":
        return bool(v)
    w, sg = INT_TYPES[ty]
    v %= 1 << w
    if sg and v >= (1 << (w - 1)):
        v -= 1 << w
    return v


def eval_term(t, env):
    op = t.op
    if op == "const":
        return t.args[0]
    if op == "var":
        return _norm(t.ty, env[t.args[0]])
    if op == "not":
        return not eval_term(t.args[0], env)
    if op == "and":
        return all(eval_term(a, env) for a in t.args)
    if op == "or":
        return any(eval_term(a, env) for a in t.args)
    if op == "ite":
        return eval_term(t.args[1], env) if eval_term(t.args[0], env) else eval_term(t.args[2], env)
    a = eval_term(t.args[0], env)
    aty = t.args[0].ty
    if op == "ispow2":
        return a > 0 and (a & (a - 1)) == 0
    if op == "cast":
        return _norm(t.ty, int(a))
    b = eval_term(t.args[1], env)
    w, sg = INT_TYPES[aty] if aty != "bool" else (1, False)
    lo, hi = (-(1 << (w - 1)), (1 << (w - 1)) - 1) if sg else (0, (1 << w) - 1)
    if op == "Add":
        return _norm(aty, a + b)
    if op == "Sub":
        return _norm(aty, a - b)
    if op == "Mul":
        return _norm(aty, a * b)
    if op == "AddOvf":
        return not (lo <= a + b <= hi)
    if op == "SubOvf":
        return not (lo <= a - b <= hi)
    if op == "MulOvf":
        return not (lo <= a * b <= hi)
    if op == "Div":
        if b == 0:
            raise ZeroDivisionError
        q = abs(a) // abs(b)
        return _norm(aty, q if (a < 0) == (b < 0) else -q)
    if op == "Rem":
        if b == 0:
            raise ZeroDivisionError
        q = abs(a) // abs(b)
        q = q if (a < 0) == (b < 0) else -q
        return _norm(aty, a - q * b)
    if op == "BitAnd":
        return (a and b) if aty == "bool" else _norm(aty, (a % (1 << w)) & (b % (1 << w)))
    if op == "BitOr":
        return (a or b) if aty == "bool" else _norm(aty, (a % (1 << w)) | (b % (1 << w)))
    if op == "BitXor":
        return (a != b) if aty == "bool" else _norm(aty, (a % (1 << w)) ^ (b % (1 << w)))
    if op == "Shr":
        return _norm(aty, a >> (b % w))
    if op == "Shl":
        return _norm(aty, a << (b % w))
    if op == "Eq":
        return a == b
    if op == "Ne":
        return a != b
    if op == "Lt":
        return a < b
    if op == "Le":
        return a <= b
    if op == "Gt":
        return a > b
    if op == "Ge":
        return a >= b
    raise Unsupported("eval: " + op)
