#!/usr/bin/env python3
"""C11 — hash partition index == hash mod partition count (engine M: MIR -> SMT).

Every run: extract `StrengthReducedU64` (enum + impl) from /repo's current
physical-plan/src/repartition/mod.rs, compile the extract with nightly rustc to MIR,
execute `new(d)` and then `partition_indices(new(d), hashes, indices)` symbolically
(d, the row hash and the row index are solver variables of full width), and discharge

  * every MIR assert on the way (overflow, division by zero, shift width, slice bounds)
  * for the (single) push of the arbitrary loop iteration: target partition == hash mod d
    and pushed value == row index as u32

with z3 (Int encoding with explicit mod-2^k wraps for the reciprocal arm, QF_BV for the
mask arm and for the glue lemma).  `sat` answers are replayed on the natively compiled
extract (dev and release profile) before they are reported.
"""
import json
import os
import re
import subprocess
import sys
import time

sys.path.insert(0, os.path.dirname(os.path.dirname(os.path.abspath(__file__))))
from vlib import common as C
from vlib.rsextract import extract_item, AnchorMoved
from m.mir2smt import (T, const, var, tnot, tand, parse_mir, parse_enum, Executor, BVPrinter, IntPrinter,
                       Unsupported, script, free_vars, eval_term)

PID = "C11"
SRC = "datafusion/physical-plan/src/repartition/mod.rs"
WORK = os.path.join(C.BUILD, "C11")

HARNESS = r'''
pub mod verif_native {
    use super::*;
    pub fn vn_new_fields(d: u64) -> (u8, u64, u128) {
        match StrengthReducedU64::new(d) {
            StrengthReducedU64::PowerOfTwo { mask } => (0, mask, 0),
            StrengthReducedU64::Reciprocal { divisor, reciprocal } => (1, divisor, reciprocal),
        }
    }
    pub fn vn_quotient(v: u64, r: u128) -> u64 {
        StrengthReducedU64::quotient(v, r)
    }
    /// runs the real loop over a one-row buffer; returns (partition that received the row, pushed value)
    pub fn vn_partition(h: u64, d: u64) -> Option<(usize, u32)> {
        let r = StrengthReducedU64::new(d);
        let mut idx: Vec<Vec<u32>> = vec![vec![]; d as usize];
        r.partition_indices(&[h], &mut idx);
        let mut found = None;
        for (p, v) in idx.iter().enumerate() {
            for x in v {
                if found.is_some() { return None; }
                found = Some((p, *x));
            }
        }
        found
    }
}
'''

MAIN = r'''
use std::io::BufRead;
use c11ext::verif_native as n;
fn main() {
    std::panic::set_hook(Box::new(|_| {}));
    let stdin = std::io::stdin();
    for line in stdin.lock().lines() {
        let line = line.unwrap();
        let p: Vec<&str> = line.split_whitespace().collect();
        if p.is_empty() { continue; }
        let out = match p[0] {
            "new" => { let d: u64 = p[1].parse().unwrap();
                match std::panic::catch_unwind(|| n::vn_new_fields(d)) { Ok((v,a,b)) => format!("{} {} {}", v, a, b), Err(_) => "panic".into() } }
            "quot" => { let v: u64 = p[1].parse().unwrap(); let r: u128 = p[2].parse().unwrap();
                match std::panic::catch_unwind(|| n::vn_quotient(v, r)) { Ok(q) => format!("{}", q), Err(_) => "panic".into() } }
            "part" => { let h: u64 = p[1].parse().unwrap(); let d: u64 = p[2].parse().unwrap();
                match std::panic::catch_unwind(|| n::vn_partition(h, d)) { Ok(Some((a,b))) => format!("{} {}", a, b), Ok(None) => "none".into(), Err(_) => "panic".into() } }
            _ => "?".into(),
        };
        println!("{}", out);
    }
}
'''


def build_extract(src_text, workdir):
    os.makedirs(os.path.join(workdir, "src", "bin"), exist_ok=True)
    e = extract_item(src_text, r"enum\s+StrengthReducedU64\b")
    i = extract_item(src_text, r"impl\s+StrengthReducedU64\b")
    with open(os.path.join(workdir, "src", "lib.rs"), "w") as f:
        f.write("#![allow(dead_code)]\n" + e + "\n" + i + "\n" + HARNESS)
    with open(os.path.join(workdir, "src", "bin", "native.rs"), "w") as f:
        f.write(MAIN)
    with open(os.path.join(workdir, "Cargo.toml"), "w") as f:
        f.write('[package]\nname="c11ext"\nversion="0.1.0"\nedition="2021"\n[workspace]\n[lib]\npath="src/lib.rs"\n'
                '[[bin]]\nname="native"\npath="src/bin/native.rs"\n[profile.release]\noverflow-checks=false\ndebug-assertions=false\n')
    return e, i


def dump_mir(workdir):
    env = {"CARGO_NET_OFFLINE": "true", "CARGO_TARGET_DIR": os.path.join(workdir, "target-mir")}
    p = C.sh(["cargo", "+nightly", "rustc", "--offline", "--lib", "--", "-Zunpretty=mir", "-C", "debug-assertions=off",
              "-C", "overflow-checks=on"], cwd=workdir, env=env, timeout=600)
    if p.returncode != 0 or "fn " not in p.stdout:
        raise RuntimeError("MIR dump failed:\n" + p.stderr[-3000:])
    with open(os.path.join(workdir, "mir.txt"), "w") as f:
        f.write(p.stdout)
    return p.stdout


def build_native(workdir):
    env = {"CARGO_NET_OFFLINE": "true", "CARGO_TARGET_DIR": os.path.join(workdir, "target")}
    for prof in ([], ["--release"]):
        p = C.sh(["cargo", "build", "--offline", "--bin", "native"] + prof, cwd=workdir, env=env, timeout=600)
        if p.returncode != 0:
            raise RuntimeError("native build failed:\n" + p.stderr[-3000:])
    return (os.path.join(workdir, "target", "debug", "native"), os.path.join(workdir, "target", "release", "native"))


def native_query(binary, lines):
    p = subprocess.run([binary], input="\n".join(lines) + "\n", capture_output=True, text=True, timeout=120)
    return p.stdout.strip().split("\n")


# ------------------------------------------------------------------ symbolic execution of the extract

def symbolic(mir_text, enum_text):
    fns = parse_mir(mir_text)
    en, variants = parse_enum(re.sub(r"(?m)^\s*(#\[.*\]|///.*)$", "", enum_text))
    d = var("u64", "d")
    pre = [T("Ne", "bool", d, const("u64", 0))]
    ex = Executor(fns, {en: variants})
    # stage 1: new(d)
    res1 = ex.run("new", [d], pc=pre)
    stage1 = list(res1.paths)
    res1.paths.clear()
    nrows = var("usize", "n_rows")
    out = []
    for pc, val, events in stage1:
        hb = ("ref", ("slice", "hash_buffer", nrows, "u64"))
        # indices.len() == num_partitions == d   (new_hash_partitioner: vec![vec![]; num_partitions])
        ind = ("ref", ("slice", "indices", T("cast", "usize", d), "Vec<u32>"))
        before = len(ex.res.paths)
        ex.run("partition_indices", [val, hb, ind], pc=pc)
        for p in ex.res.paths[before:]:
            out.append((val[1], p))
    return ex, d, out


def collect_obligations(ex, d, staged):
    obs = []
    for pc, cond, msg, where in ex.res.obligations:
        obs.append({"kind": "no-panic", "where": where, "msg": msg, "pc": pc, "goal": cond})
    npush = 0
    for variant, (pc, rv, events) in staged:
        for ev in events:
            if ev[0] != "push":
                continue
            npush += 1
            _, tgt, val, epc = ev
            if tgt[0] != "elem" or tgt[1] != "indices":
                raise Unsupported("push into something that is not indices[..]")
            idx = tgt[2]
            hv = [v for v in free_vars(idx) if v[0].startswith("iter_elem")]
            iv = [v for v in free_vars(val) if v[0].startswith("iter_index")]
            if len(hv) != 1 or len(iv) > 1:
                raise Unsupported("partition index does not depend on exactly one row hash: %r" % (hv,))
            h = var("u64", hv[0][0])
            goal = T("Eq", "bool", idx, T("cast", "usize", T("Rem", "u64", h, d)))
            obs.append({"kind": "index==hash%d", "where": "partition_indices/%s" % variant, "msg": "", "pc": epc, "goal": goal,
                        "hash": hv[0][0]})
            ivar = [v for v in ex.res.inputs if v[2] == "iter_index" and v[0] in {x[0] for x in free_vars(val)}]
            if len(ivar) == 1:
                goal2 = T("Eq", "bool", val, T("cast", "u32", var("usize", ivar[0][0])))
            else:
                goal2 = const("bool", False)
            obs.append({"kind": "pushed==row_index", "where": "partition_indices/%s" % variant, "msg": "", "pc": epc, "goal": goal2})
    return obs, npush


def declare(printer, terms):
    vs = set()
    for t in terms:
        free_vars(t, vs)
    return sorted(vs)


LEMMA_CACHE = {}


def prove_lemma(d, dropped, lemma, solvers, tmo):
    """`dropped` are path-condition conjuncts the Int encoding cannot express (bit tricks such as
    is_power_of_two).  They are replaced by `lemma`, which is proved from them bit-precisely."""
    key = "|".join(sorted(repr(x) for x in dropped))
    if key not in LEMMA_CACHE:
        pr = BVPrinter()
        pre = [T("Ne", "bool", d, const("u64", 0))] + dropped
        txt = script(pr, declare(pr, pre + [lemma]), pre, tnot(lemma))
        v, per, _ = solve(txt, solvers, tmo)
        LEMMA_CACHE[key] = (v, per)
    return LEMMA_CACHE[key]


def has_op(t, op):
    if not isinstance(t, T):
        return False
    if t.op == op:
        return True
    return any(has_op(a, op) for a in t.args)


def encode(ob, d, mode, cuts=None, weaken=False):
    """returns (script_text, input_vars, dropped_assumptions, lemma_terms) ; raises Unsupported"""
    lemma = T("Ge", "bool", d, const("u64", 3))
    if mode == "bv":
        pr = BVPrinter()
        vs = declare(pr, ob["pc"] + [ob["goal"]])
        return script(pr, vs, ob["pc"], tnot(ob["goal"])), vs, [], []
    abstract = {}
    if cuts:
        for n, (callee, term) in enumerate(cuts):
            abstract[id(term)] = "cut_%s_%d" % (callee, n)
    pr = IntPrinter(abstract=abstract)
    keep, dropped = [], []
    for a in ob["pc"]:
        try:
            IntPrinter().p(a)
            if weaken and has_op(a, "ispow2"):
                dropped.append(a)
            else:
                keep.append(a)
        except Unsupported:
            dropped.append(a)
    lemmas = [lemma] if dropped else []
    IntPrinter().p(ob["goal"])  # may raise Unsupported
    vs = declare(pr, keep + lemmas + [ob["goal"]])
    return script(pr, vs, keep + lemmas, tnot(ob["goal"])), vs, dropped, lemmas


def parse_values(out):
    vals = {}
    for m in re.finditer(r"\((\w+) (#x[0-9a-fA-F]+|#b[01]+|\d+|\(- \d+\)|true|false)\)", out):
        name, v = m.group(1), m.group(2)
        if v.startswith("#x"):
            vals[name] = int(v[2:], 16)
        elif v.startswith("#b"):
            vals[name] = int(v[2:], 2)
        elif v.startswith("(-"):
            vals[name] = -int(v[3:-1])
        elif v in ("true", "false"):
            vals[name] = v == "true"
        else:
            vals[name] = int(v)
    return vals


def solve(text, solvers, timeout_s, values_of=None, grace_s=5.0):
    """Run the same script through several solvers in parallel.
    verdict: `unsat` if at least one solver says unsat and none says sat; `sat` if one says sat and none
    unsat; otherwise `inconclusive` (timeouts, errors, or disagreement)."""
    import concurrent.futures as cf
    import threading
    per = {}
    model = None
    decided = threading.Event()   # once one solver has a definite answer the others get a short grace period

    def one(s):
        q = text + "(check-sat)\n"
        try:
            ans, out, dt = C.run_solver(q, s, timeout_s, cancel=decided, grace_s=grace_s)
        except C.SolverError as e:
            return s, {"answer": "error", "detail": str(e)[:200]}, None
        a = ans[0] if ans else "none"
        if a in ("sat", "unsat"):
            decided.set()
        mv = None
        if a == "sat" and values_of:
            q2 = text.replace("(set-logic", "(set-option :produce-models true)\n(set-logic", 1) + "(check-sat)\n(get-value (%s))\n" % " ".join(values_of)
            try:
                _, out2, _ = C.run_solver(q2, s, timeout_s)
                mv = parse_values(out2)
            except C.SolverError:
                mv = None
        return s, {"answer": a, "secs": round(dt, 2)}, mv

    with cf.ThreadPoolExecutor(max_workers=len(solvers)) as pool:
        for s, rec, mv in pool.map(one, solvers):
            per[s] = rec
            if mv and model is None:
                model = mv
    answers = {r["answer"] for r in per.values()}
    if "unsat" in answers and "sat" not in answers:
        return "unsat", per, None
    if "sat" in answers and "unsat" not in answers:
        return "sat", per, model
    return "inconclusive", per, model


def main():
    t0 = time.time()
    tier = C.tier()
    quick = tier == "quick"
    tmo = 60 if quick else 600
    solvers_int = ["z3-new", "cvc5"] + ([] if quick else ["z3"])
    solvers_bv = ["z3", "z3-new"] + ([] if quick else ["cvc5"])
    inconclusive, violations, known_hits, msgs = [], [], [], []
    samples = []
    try:
        src = open(os.path.join(C.REPO, SRC)).read()
        enum_text, impl_text = build_extract(src, WORK)
        # glue anchors: the reducer is built from the partition count and `indices` has that many slots
        glue_ok = re.search(r"partition_reducer:\s*StrengthReducedU64::new\(\s*num_partitions\s+as\s+u64\s*\)", src) and \
            re.search(r"indices:\s*vec!\[\s*vec!\[\]\s*;\s*num_partitions\s*\]", src)
        mir = dump_mir(WORK)
        ex, d, staged = symbolic(mir, enum_text)
        obs, npush = collect_obligations(ex, d, staged)
        dbg, rel = build_native(WORK)
    except AnchorMoved as e:
        C.write_evidence(PID, "proof", {"obligations": 0, "discharged": 0, "checker_cmd": "m/c11.py", "trusted_base": [],
                                        "explanation": "anchor moved: %s" % e}, [], time.time() - t0, 0)
        C.finish(PID, [], [], ["anchor moved: %s" % e])
    except (Unsupported, RuntimeError) as e:
        C.write_evidence(PID, "proof", {"obligations": 0, "discharged": 0, "checker_cmd": "m/c11.py", "trusted_base": [],
                                        "explanation": "could not encode: %s" % str(e)[:500]}, [], time.time() - t0, 0)
        C.finish(PID, [], [], ["encoding failed: %s" % str(e)[:500]])

    if not glue_ok:
        inconclusive.append("glue anchor moved: new_hash_partitioner no longer builds `StrengthReducedU64::new(num_partitions as u64)` with `vec![vec![]; num_partitions]`")
    variants_seen = sorted({v for v, _ in staged})
    if npush < 2 or len(variants_seen) < 2:
        inconclusive.append("vacuity: expected a push event in both arms, saw %d pushes in arms %s" % (npush, variants_seen))

    # ---- translator validation against the natively compiled extract
    tv_vectors = [1, 2, 3, 5, 7, 10, 12, 16, 255, 256, 1000, 65535, 65536, (1 << 32) - 1, 1 << 32, (1 << 32) + 1, (1 << 63) - 1, 1 << 63,
                  (1 << 63) + 1, (1 << 64) - 2, (1 << 64) - 1]
    hvals = [0, 1, 2, 3, 12345678901234567, (1 << 32) - 1, 1 << 32, (1 << 63), (1 << 64) - 2, (1 << 64) - 1, 0xDEADBEEFCAFEBABE]
    tv_checked = 0
    tv_bad = []
    # (a) `new`: the symbolic return value of each path evaluated at d must equal the native fields
    ex2 = Executor(parse_mir(mir), {parse_enum(re.sub(r"(?m)^\s*(#\[.*\]|///.*)$", "", enum_text))[0]: parse_enum(re.sub(r"(?m)^\s*(#\[.*\]|///.*)$", "", enum_text))[1]})
    dd = var("u64", "d")
    r_new = ex2.run("new", [dd], pc=[])
    new_paths = list(r_new.paths)
    nat_new = native_query(rel, ["new %d" % x for x in tv_vectors])
    for x, nat in zip(tv_vectors, nat_new):
        env = {"d": x}
        got = None
        for pc, val, _ in new_paths:
            try:
                if all(eval_term(c, env) for c in pc):
                    fields = [eval_term(val[2][k], env) for k in sorted(val[2])]
                    got = "%d %d %d" % (val[3], fields[0], fields[1] if len(fields) > 1 else 0)
            except ZeroDivisionError:
                pass
        tv_checked += 1
        if got != nat:
            tv_bad.append(("new", x, got, nat))
    # (b) partition index term vs native partition() for small d, and quotient for large d
    for variant, (pc, rv, events) in staged:
        for ev in events:
            if ev[0] != "push":
                continue
            idx_t, val_t = ev[1][2], ev[2]
            names = {v[0]: v[1] for v in free_vars(idx_t) | free_vars(val_t)}
            hname = [n for n in names if n.startswith("iter_elem")][0]
            iname = [n for n in names if n.startswith("iter_index")]
            qs, envs = [], []
            for x in [v for v in tv_vectors if v <= 65536]:
                for h in hvals:
                    env = {"d": x, hname: h, "n_rows": 1}
                    for n in iname:
                        env[n] = 0
                    try:
                        if not all(eval_term(c, env) for c in ev[3]):
                            continue
                    except ZeroDivisionError:
                        continue
                    qs.append("part %d %d" % (h, x))
                    envs.append(env)
            if qs:
                for env, nat in zip(envs, native_query(rel, qs)):
                    got = "%d %d" % (eval_term(idx_t, env), eval_term(val_t, env))
                    tv_checked += 1
                    if got != nat:
                        tv_bad.append(("part", env, got, nat))
    r_q = Executor(parse_mir(mir), {}).run("quotient", [var("u64", "v"), var("u128", "r")], pc=[])
    qterm = r_q.paths[0][1]
    qq, qe = [], []
    for x in tv_vectors:
        if x & (x - 1) == 0:
            continue
        R = ((1 << 128) - 1) // x + 1
        for h in hvals:
            qq.append("quot %d %d" % (h, R))
            qe.append({"v": h, "r": R})
    for env, nat in zip(qe, native_query(rel, qq)):
        tv_checked += 1
        got = str(eval_term(qterm, env))
        if got != nat:
            tv_bad.append(("quot", env, got, nat))
    if tv_bad:
        inconclusive.append("translator validation failed (MIR executor disagrees with native code) on %d vectors, e.g. %r" % (len(tv_bad), tv_bad[0]))

    # ---- discharge
    import concurrent.futures as cf
    cuts = ex.res.cuts
    lemma = T("Ge", "bool", d, const("u64", 3))

    def discharge(k_ob):
        k, ob = k_ob
        label = "%s@%s" % (ob["kind"], ob["where"])
        rec = {"obligation": label, "attempts": []}
        if ob["msg"]:
            rec["mir_assert"] = ob["msg"][:80]
        ladder = [("Int+mod", "int", None, False, t_full),
                  ("Int+mod, power-of-two test weakened to d>=3 (lemma proved in QF_BV)", "int", None, True, t_full),
                  ("Int+mod, call results cut", "int", cuts, False, t_full),
                  ("Int+mod, call results cut, power-of-two test weakened", "int", cuts, True, tmo),
                  ("QF_BV", "bv", None, False, tmo)]
        verdict, model, vs_used = "inconclusive", None, None
        for name, mode, cts, weaken, t_ in ladder:
            if weaken and not any(has_op(a, "ispow2") for a in ob["pc"]):
                continue
            try:
                text, vs, dropped, lemmas = encode(ob, d, mode, cts, weaken)
            except Unsupported as e:
                rec["attempts"].append({"encoding": name, "skipped": "not expressible: %s" % str(e)[:60]})
                continue
            if dropped:
                lv, lper = prove_lemma(d, dropped, lemma, solvers_bv, tmo)
                rec["lemma"] = {"statement": "dropped bit-level path conditions imply d >= 3 (QF_BV)", "verdict": lv, "solvers": lper}
                if lv != "unsat":
                    rec["attempts"].append({"encoding": name, "skipped": "glue lemma not provable for this path"})
                    continue
            # vacuity: the assumptions alone must be satisfiable
            ass_only = text.rsplit("(assert", 1)[0]
            v0, per0, _ = solve(ass_only, ["z3-new"], t_)
            if v0 != "sat":
                rec["attempts"].append({"encoding": name, "vacuity": per0})
                continue
            solvers = solvers_int if mode == "int" else solvers_bv
            names = [v[0] for v in vs]
            v, per, mv = solve(text, solvers, t_, values_of=names)
            rec["attempts"].append({"encoding": name, "verdict": v, "solvers": per})
            if v == "unsat":
                verdict = "unsat"
                rec["encoding"] = name
                break
            if v == "sat":
                if dropped and mv:
                    try:
                        ok = all(eval_term(c, mv) for c in dropped)
                    except Exception:
                        ok = False
                    if not ok:
                        rec["attempts"][-1]["note"] = "model violates a dropped path condition: spurious, not a counterexample"
                        continue
                if cts:
                    # a model of the abstraction may be spurious: keep looking (QF_BV next), do not report it
                    rec["attempts"][-1]["note"] = "sat under abstraction only: not a counterexample"
                    continue
                verdict, model, vs_used = "sat", mv, (text, mode)
                rec["encoding"] = name
                break
        rec["verdict"] = verdict
        if verdict == "sat":
            # prefer a small partition count, so that the model can be replayed through the real loop
            text, mode = vs_used
            small = text + "(assert (%s))\n" % ("<= d 65536" if mode == "int" else "bvule d (_ bv65536 64)")
            v2, _, mv2 = solve(small, ["z3-new"], tmo, values_of=[x for x in (model or {}).keys()] or ["d"])
            if v2 == "sat" and mv2:
                model = mv2
            rec["model"] = model
        return k, ob, rec

    t_full = 30 if quick else 120
    with cf.ThreadPoolExecutor(max_workers=6) as pool:
        done = list(pool.map(discharge, list(enumerate(obs))))

    discharged = 0
    total = len(obs)
    solver_secs = 0.0
    two_solver = 0
    results = []
    for k, ob, rec in done:
        results.append(rec)
        label = rec["obligation"]
        for a in rec["attempts"]:
            for sv in a.get("solvers", {}).values():
                solver_secs += sv.get("secs", 0)
        if rec["verdict"] == "unsat":
            discharged += 1
            last = rec["attempts"][-1]
            if sum(1 for sv in last["solvers"].values() if sv["answer"] == "unsat") >= 2:
                two_solver += 1
            continue
        if rec["verdict"] == "inconclusive":
            inconclusive.append("solver did not decide %s: %s" % (label, json.dumps(rec["attempts"])[:300]))
            continue
        vals = rec.get("model") or {}
        dv = vals.get("d")
        hv = vals.get(ob.get("hash", ""), None)
        if hv is None:
            hcands = [v for k_, v in vals.items() if k_.startswith("iter_elem")]
            hv = hcands[0] if hcands else 0
        reproduced = False
        detail = ""
        if dv is not None and 0 < dv <= (1 << 24):
            exp = "%d 0" % (hv % dv)
            for b, nm in ((dbg, "dev"), (rel, "release")):
                got = native_query(b, ["part %d %d" % (hv, dv)])[0]
                detail += "%s: partition(hash=%d, count=%d) -> %s, expected %s; " % (nm, hv, dv, got, exp)
                if got != exp:
                    reproduced = True
        elif dv:
            # too many partitions to allocate: replay at function level (new, quotient), final subtraction wrapping
            for b, nm in ((dbg, "dev"), (rel, "release")):
                nf = native_query(b, ["new %d" % dv])[0]
                if nf == "panic":
                    reproduced = True
                    detail += "%s: new(%d) panics; " % (nm, dv)
                    continue
                vv, a_, b_ = nf.split()
                if vv == "0":
                    got = hv & int(a_)
                else:
                    q = native_query(b, ["quot %d %s" % (hv, b_)])[0]
                    got = "panic" if q == "panic" else (hv - int(q) * int(a_)) % (1 << 64)
                detail += "%s: reducer(%d) on hash %d -> %s, expected %d; " % (nm, dv, hv, got, hv % dv)
                if got != hv % dv:
                    reproduced = True
        rec["replay"] = detail
        if reproduced:
            sig = "C11:%s" % label
            os.makedirs(os.path.join(C.BUILD, "replay"), exist_ok=True)
            rp = os.path.join(C.BUILD, "replay", "C11_%d.json" % k)
            json.dump({"property": PID, "obligation": label, "hash": hv, "partition_count": dv, "replay": detail,
                       "how": "echo 'part %s %s' | %s" % (hv, dv, rel)}, open(rp, "w"), indent=1)
            kf = C.match_known(PID, sig)
            if kf:
                known_hits.append(kf.get("what", sig))
            else:
                violations.append((sig, rp))
                msgs.append("counterexample for %s: %s" % (label, detail))
        else:
            # a failing overflow assertion matters only in builds with overflow checks; if neither profile
            # misbehaves observably the model is not a violation of the property
            inconclusive.append("solver model for %s did not reproduce natively (%s)" % (label, detail or vals))

    for r in results[:6] + results[-4:]:
        samples.append(r)
    cov = {
        "obligations": total,
        "discharged": discharged,
        "checker_cmd": "python3 m/c11.py  (nightly rustc -Zunpretty=mir -> m/mir2smt.py -> /usr/bin/z3 + z3-new" + ("" if quick else " + cvc5") + ")",
        "trusted_base": ["rustc nightly MIR of the extracted items is the semantics of the stable build's code",
                         "m/mir2smt.py translator (validated this run on %d vectors against the natively compiled extract)" % tv_checked,
                         "std models: u64::is_power_of_two, <u128 as From<u64>>::from, slice::iter/enumerate/next, Vec::push",
                         "z3 5.1.0, cvc5 1.0.3, z3 4.8.12: an obligation counts as discharged when at least one answers unsat and none answers sat; discharged_by_two_solvers counts those confirmed twice"],
        "functions_encoded": sorted(ex.res.functions),
        "std_models_used": sorted(ex.res.models),
        "bounds": "none on values: d in [1, 2^64), hash in [0, 2^64), row index in [0, 2^64); one arbitrary loop iteration",
        "outside": ["create_hashes producing the hash (C12)", "`num_partitions as u64` on targets where usize is wider than 64 bits",
                    "BatchPartitioner::partition_iter consuming `indices` (C10)"],
        "paths": len(staged),
        "queries": sum(len(r["attempts"]) for r in results),
        "discharged_by_two_solvers": two_solver,
        "solver_time_s": round(solver_secs, 2),
        "translator_validation_vectors": tv_checked,
        "samples": samples,
        "all_results": results,
    }
    C.write_evidence(PID, "proof", cov,
                     ["indices.len() == num_partitions == d (new_hash_partitioner builds both from the same argument; checked textually)",
                      "d != 0 (new_hash_partitioner rejects 0)",
                      "rows are independent: the partition index term depends only on the row's hash and d (checked on the term)"],
                     time.time() - t0, len(violations))
    C.finish(PID, violations, known_hits, inconclusive, msgs)


if __name__ == "__main__":
    main()
