// Common part of the C42 Kani harness crate (generated harnesses are appended below).
// The code under test is datafusion_common::tree_node, used through its public API with three
// node representations that cover the three families of `TreeNode` implementations in DataFusion:
//   VNode  - ConcreteTreeNode (Vec children; PlanContext / ExprContext use this impl)
//   ANode  - Arc<T: DynTreeNode> (physical expressions and execution plans use this impl)
//   TNode  - hand-written apply_children/map_children over tuple / Box / Vec containers, the way
//            `Expr` and `LogicalPlan` do it (exercises visit_sibling / transform_sibling)
#![allow(dead_code, unused_imports, clippy::all)]

use datafusion_common::tree_node::{
    ConcreteTreeNode, DynTreeNode, Transformed, TreeNode, TreeNodeContainer, TreeNodeRecursion, TreeNodeRefContainer,
    TreeNodeRewriter, TreeNodeVisitor,
};
use datafusion_common::Result;
use std::sync::Arc;

pub const MAXN: usize = 5;

/// decision of a closure at one node
#[derive(Clone, Copy)]
pub struct Dec {
    pub tnr: u8, // 0 Continue, 1 Jump, 2 Stop
    pub tr: bool, // report `transformed` and mark the node
}

#[cfg(kani)]
impl kani::Arbitrary for Dec {
    fn any() -> Self {
        let tnr: u8 = kani::any();
        kani::assume(tnr < 3);
        Dec { tnr, tr: kani::any() }
    }
}

pub fn tnr_of(d: u8) -> TreeNodeRecursion {
    match d {
        0 => TreeNodeRecursion::Continue,
        1 => TreeNodeRecursion::Jump,
        _ => TreeNodeRecursion::Stop,
    }
}
pub fn tnr_code(t: TreeNodeRecursion) -> u8 {
    match t {
        TreeNodeRecursion::Continue => 0,
        TreeNodeRecursion::Jump => 1,
        TreeNodeRecursion::Stop => 2,
    }
}

pub const DOWN_MARK: u8 = 0x40;
pub const UP_MARK: u8 = 0x80;

/// event log as an accumulator (no symbolically indexed arrays): 6 bits per event =
/// phase (0 = f_down / f, 1 = f_up) | the two mark bits the closure saw on the node | node id
#[derive(Clone, Copy, PartialEq)]
pub struct Log {
    pub acc: u64,
    pub n: u8,
}
impl Log {
    pub fn new() -> Log {
        Log { acc: 0, n: 0 }
    }
    pub fn push(&mut self, phase: u8, id: u8, mk: u8) {
        let code = ((phase & 1) << 5) | ((mk >> 6) << 3) | (id & 7);
        self.acc = (self.acc << 6) | code as u64;
        self.n += 1;
    }
    pub fn same(&self, o: &Log) -> bool {
        self.acc == o.acc && self.n == o.n
    }
}

// ---------------------------------------------------------------- concrete shape (reference side)

/// A tree shape as parallel arrays: node i has children kids[i][0..nk[i]] (ids are pre-order numbers).
#[derive(Clone, Copy)]
pub struct Shape {
    pub n: usize,
    pub nk: [usize; MAXN],
    pub kids: [[usize; 3]; MAXN],
}

/// reference result of a rewriting walk
pub struct RefOut {
    pub marks: [u8; MAXN], // final id of node i = i | marks[i]
    pub transformed: bool,
    pub tnr: u8,
    pub log: Log,
}

/// Reference interpreter of the documented contract for the combined walk
/// (f_down, children, f_up) - `rewrite`, `transform_down_up`, and with one side disabled
/// `transform_down` / `transform_up`.  `use_down` / `use_up` say which closures exist.
pub fn ref_rewrite(s: &Shape, down: &[Dec; MAXN], up: &[Dec; MAXN], use_down: bool, use_up: bool) -> RefOut {
    let mut out = RefOut { marks: [0; MAXN], transformed: false, tnr: 0, log: Log::new() };
    out.tnr = ref_rewrite_node(s, 0, down, up, use_down, use_up, &mut out);
    out
}

fn ref_rewrite_node(s: &Shape, i: usize, down: &[Dec; MAXN], up: &[Dec; MAXN], use_down: bool, use_up: bool, out: &mut RefOut) -> u8 {
    // pre-order closure
    let mut t = 0u8;
    if use_down {
        out.log.push(0, i as u8, out.marks[i]);
        if down[i].tr {
            out.marks[i] |= DOWN_MARK;
            out.transformed = true;
        }
        t = down[i].tnr;
    }
    // children: Continue -> recurse; Jump -> skip the subtree and go on as Continue; Stop -> stop everything
    let mut c = match t {
        0 => {
            let mut last = 0u8;
            let mut k = 0;
            while k < s.nk[i] {
                last = ref_rewrite_node(s, s.kids[i][k], down, up, use_down, use_up, out);
                if last == 2 {
                    break;
                }
                k += 1;
            }
            last
        }
        1 => 0,
        _ => 2,
    };
    // post-order closure: only when the walk arrives here with Continue; Jump / Stop pass through
    if c == 0 && use_up {
        out.log.push(1, i as u8, out.marks[i]);
        if up[i].tr {
            out.marks[i] |= UP_MARK;
            out.transformed = true;
        }
        c = up[i].tnr;
    }
    c
}

/// Reference for the inspecting walks: `visit` (both closures), `apply` (down only).
pub fn ref_visit(s: &Shape, down: &[Dec; MAXN], up: &[Dec; MAXN], use_up: bool) -> (u8, Log) {
    let mut log = Log::new();
    let t = ref_visit_node(s, 0, down, up, use_up, &mut log);
    (t, log)
}

fn ref_visit_node(s: &Shape, i: usize, down: &[Dec; MAXN], up: &[Dec; MAXN], use_up: bool, log: &mut Log) -> u8 {
    log.push(0, i as u8, 0);
    let t = down[i].tnr;
    let mut c = match t {
        0 => {
            let mut last = 0u8;
            let mut k = 0;
            while k < s.nk[i] {
                last = ref_visit_node(s, s.kids[i][k], down, up, use_up, log);
                if last == 2 {
                    break;
                }
                k += 1;
            }
            last
        }
        1 => 0,
        _ => 2,
    };
    if use_up && c == 0 {
        log.push(1, i as u8, 0);
        c = up[i].tnr;
    }
    c
}

// ---------------------------------------------------------------- VNode: ConcreteTreeNode

#[derive(Clone, Debug, PartialEq)]
pub struct VNode {
    pub id: u8,
    pub mk: u8,
    pub ch: Vec<VNode>,
}

impl ConcreteTreeNode for VNode {
    fn children(&self) -> &[Self] {
        &self.ch
    }
    fn take_children(mut self) -> (Self, Vec<Self>) {
        let ch = std::mem::take(&mut self.ch);
        (self, ch)
    }
    fn with_new_children(mut self, children: Vec<Self>) -> Result<Self> {
        self.ch = children;
        Ok(self)
    }
}

pub fn v_build(s: &Shape, i: usize) -> VNode {
    let mut ch = Vec::new();
    let mut k = 0;
    while k < s.nk[i] {
        ch.push(v_build(s, s.kids[i][k]));
        k += 1;
    }
    VNode { id: i as u8, mk: 0, ch }
}
pub fn v_marks(n: &VNode, marks: &mut [u8; MAXN]) {
    marks[n.id as usize] = n.mk;
    for c in &n.ch {
        v_marks(c, marks);
    }
}
pub fn v_id(n: &VNode) -> (u8, u8) {
    (n.id, n.mk)
}
pub fn v_mark(mut n: VNode, m: u8) -> VNode {
    n.mk |= m;
    n
}

// ---------------------------------------------------------------- ANode: Arc<T: DynTreeNode>

#[derive(Debug)]
pub struct ANode {
    pub id: u8,
    pub mk: u8,
    pub ch: Vec<Arc<ANode>>,
}

impl DynTreeNode for ANode {
    fn arc_children(&self) -> Vec<&Arc<Self>> {
        self.ch.iter().collect()
    }
    fn with_new_arc_children(&self, arc_self: Arc<Self>, new_children: Vec<Arc<Self>>) -> Result<Arc<Self>> {
        Ok(Arc::new(ANode { id: arc_self.id, mk: arc_self.mk, ch: new_children }))
    }
}

pub fn a_build(s: &Shape, i: usize) -> Arc<ANode> {
    let mut ch = Vec::new();
    let mut k = 0;
    while k < s.nk[i] {
        ch.push(a_build(s, s.kids[i][k]));
        k += 1;
    }
    Arc::new(ANode { id: i as u8, mk: 0, ch })
}
pub fn a_marks(n: &Arc<ANode>, marks: &mut [u8; MAXN]) {
    marks[n.id as usize] = n.mk;
    for c in &n.ch {
        a_marks(c, marks);
    }
}
pub fn a_id(n: &Arc<ANode>) -> (u8, u8) {
    (n.id, n.mk)
}
pub fn a_mark(n: Arc<ANode>, m: u8) -> Arc<ANode> {
    Arc::new(ANode { id: n.id, mk: n.mk | m, ch: n.ch.clone() })
}

// ---------------------------------------------------------------- TNode: tuple / Box / Vec containers (Expr style)

impl Default for TNode {
    fn default() -> Self {
        TNode::Leaf(0, 0)
    }
}

#[derive(Clone, Debug, PartialEq)]
pub enum TNode {
    Leaf(u8, u8),
    Un(u8, u8, Box<TNode>),
    Bin(u8, u8, Box<TNode>, Box<TNode>),
    Tri(u8, u8, Box<TNode>, Vec<TNode>),
}

impl<'a> TreeNodeContainer<'a, Self> for TNode {
    fn apply_elements<F: FnMut(&'a Self) -> Result<TreeNodeRecursion>>(&'a self, mut f: F) -> Result<TreeNodeRecursion> {
        f(self)
    }
    fn map_elements<F: FnMut(Self) -> Result<Transformed<Self>>>(self, mut f: F) -> Result<Transformed<Self>> {
        f(self)
    }
}

impl TreeNode for TNode {
    fn apply_children<'n, F: FnMut(&'n Self) -> Result<TreeNodeRecursion>>(&'n self, f: F) -> Result<TreeNodeRecursion> {
        match self {
            TNode::Leaf(..) => Ok(TreeNodeRecursion::Continue),
            TNode::Un(_, _, a) => a.apply_elements(f),
            TNode::Bin(_, _, a, b) => (a, b).apply_ref_elements(f),
            TNode::Tri(_, _, a, rest) => (a, rest).apply_ref_elements(f),
        }
    }
    fn map_children<F: FnMut(Self) -> Result<Transformed<Self>>>(self, f: F) -> Result<Transformed<Self>> {
        Ok(match self {
            TNode::Leaf(..) => Transformed::no(self),
            TNode::Un(id, mk, a) => a.map_elements(f)?.update_data(|a| TNode::Un(id, mk, a)),
            TNode::Bin(id, mk, a, b) => (a, b).map_elements(f)?.update_data(|(a, b)| TNode::Bin(id, mk, a, b)),
            TNode::Tri(id, mk, a, rest) => (a, rest).map_elements(f)?.update_data(|(a, rest)| TNode::Tri(id, mk, a, rest)),
        })
    }
}

pub fn t_build(s: &Shape, i: usize) -> TNode {
    match s.nk[i] {
        0 => TNode::Leaf(i as u8, 0),
        1 => TNode::Un(i as u8, 0, Box::new(t_build(s, s.kids[i][0]))),
        2 => TNode::Bin(i as u8, 0, Box::new(t_build(s, s.kids[i][0])), Box::new(t_build(s, s.kids[i][1]))),
        _ => TNode::Tri(i as u8, 0, Box::new(t_build(s, s.kids[i][0])), vec![t_build(s, s.kids[i][1]), t_build(s, s.kids[i][2])]),
    }
}
pub fn t_id(n: &TNode) -> (u8, u8) {
    match n {
        TNode::Leaf(i, m) | TNode::Un(i, m, _) | TNode::Bin(i, m, _, _) | TNode::Tri(i, m, _, _) => (*i, *m),
    }
}
pub fn t_mark(n: TNode, x: u8) -> TNode {
    match n {
        TNode::Leaf(i, m) => TNode::Leaf(i, m | x),
        TNode::Un(i, m, a) => TNode::Un(i, m | x, a),
        TNode::Bin(i, m, a, b) => TNode::Bin(i, m | x, a, b),
        TNode::Tri(i, m, a, r) => TNode::Tri(i, m | x, a, r),
    }
}
pub fn t_marks(n: &TNode, marks: &mut [u8; MAXN]) {
    let (id, mk) = t_id(n);
    marks[id as usize] = mk;
    match n {
        TNode::Leaf(..) => {}
        TNode::Un(_, _, a) => t_marks(a, marks),
        TNode::Bin(_, _, a, b) => {
            t_marks(a, marks);
            t_marks(b, marks);
        }
        TNode::Tri(_, _, a, r) => {
            t_marks(a, marks);
            for c in r {
                t_marks(c, marks);
            }
        }
    }
}

// ---------------------------------------------------------------- generic drivers (one instantiation per node type)

/// unwrap without formatting the error (keeps std::fmt out of the model)
macro_rules! ok {
    ($e:expr) => {
        match $e {
            Ok(v) => v,
            Err(e) => {
                std::mem::forget(e);
                panic!("closure returned an error")
            }
        }
    };
}

macro_rules! drivers {
    ($modname:ident, $N:ty, $build:ident, $id:ident, $mark:ident, $marks:ident) => {
        pub mod $modname {
            use super::*;

            struct Vis<'d> {
                down: &'d [Dec; MAXN],
                up: &'d [Dec; MAXN],
                log: Log,
            }
            impl<'n, 'd> TreeNodeVisitor<'n> for Vis<'d> {
                type Node = $N;
                fn f_down(&mut self, n: &'n $N) -> Result<TreeNodeRecursion> {
                    let (id, mk) = $id(n);
                    self.log.push(0, id, mk);
                    Ok(tnr_of(self.down[id as usize].tnr))
                }
                fn f_up(&mut self, n: &'n $N) -> Result<TreeNodeRecursion> {
                    let (id, mk) = $id(n);
                    self.log.push(1, id, mk);
                    Ok(tnr_of(self.up[id as usize].tnr))
                }
            }

            struct Rw<'d> {
                down: &'d [Dec; MAXN],
                up: &'d [Dec; MAXN],
                log: Log,
            }
            fn step(n: $N, d: &[Dec; MAXN], phase: u8, log: &mut Log) -> Result<Transformed<$N>> {
                let (id, mk) = $id(&n);
                log.push(phase, id, mk);
                let dec = d[id as usize];
                let m = if phase == 0 { DOWN_MARK } else { UP_MARK };
                Ok(if dec.tr { Transformed::new($mark(n, m), true, tnr_of(dec.tnr)) } else { Transformed::new(n, false, tnr_of(dec.tnr)) })
            }
            impl<'d> TreeNodeRewriter for Rw<'d> {
                type Node = $N;
                fn f_down(&mut self, n: $N) -> Result<Transformed<$N>> {
                    step(n, self.down, 0, &mut self.log)
                }
                fn f_up(&mut self, n: $N) -> Result<Transformed<$N>> {
                    step(n, self.up, 1, &mut self.log)
                }
            }

            fn check_rewrite_result(s: &Shape, r: Transformed<$N>, log: &Log, exp: &RefOut) {
                assert!(log.same(&exp.log), "visit sequence differs from the contract");
                assert!(r.transformed == exp.transformed, "changed-flag differs from the contract");
                assert!(tnr_code(r.tnr) == exp.tnr, "final recursion state differs from the contract");
                let mut marks = [0u8; MAXN];
                $marks(&r.data, &mut marks);
                // unrolled (no loop: the unwind bound of a harness is sized for the tree, not for MAXN)
                assert!(s.n <= 0 || marks[0] == exp.marks[0], "rewritten tree differs from the contract");
                assert!(s.n <= 1 || marks[1] == exp.marks[1], "rewritten tree differs from the contract");
                assert!(s.n <= 2 || marks[2] == exp.marks[2], "rewritten tree differs from the contract");
                assert!(s.n <= 3 || marks[3] == exp.marks[3], "rewritten tree differs from the contract");
                assert!(s.n <= 4 || marks[4] == exp.marks[4], "rewritten tree differs from the contract");
                std::mem::forget(r);
            }

            pub fn visit(s: &Shape, down: &[Dec; MAXN], up: &[Dec; MAXN]) {
                let t = $build(s, 0);
                let mut v = Vis { down, up, log: Log::new() };
                let r = ok!(t.visit(&mut v));
                let (et, elog) = ref_visit(s, down, up, true);
                assert!(v.log.same(&elog), "visit sequence differs from the contract");
                assert!(tnr_code(r) == et, "final recursion state differs from the contract");
                std::mem::forget(t);
            }
            pub fn apply(s: &Shape, down: &[Dec; MAXN], up: &[Dec; MAXN]) {
                let t = $build(s, 0);
                let mut log = Log::new();
                let r = ok!(t.apply(|n| {
                    let (id, mk) = $id(n);
                    log.push(0, id, mk);
                    Ok(tnr_of(down[id as usize].tnr))
                }));
                let (et, elog) = ref_visit(s, down, up, false);
                assert!(log.same(&elog), "visit sequence differs from the contract");
                assert!(tnr_code(r) == et, "final recursion state differs from the contract");
                std::mem::forget(t);
            }
            pub fn exists(s: &Shape, down: &[Dec; MAXN], _up: &[Dec; MAXN]) {
                // predicate true at the nodes where `tr` is set; exists == any node reached before the first hit
                let t = $build(s, 0);
                let mut n_calls = 0usize;
                let r = ok!(t.exists(|n| {
                    n_calls += 1;
                    Ok(down[$id(n).0 as usize].tr)
                }));
                let mut expect = false;
                let mut first = s.n;
                macro_rules! step_i {
                    ($i:expr) => {
                        if $i < s.n && down[$i].tr && !expect {
                            expect = true;
                            first = $i;
                        }
                    };
                }
                step_i!(0);
                step_i!(1);
                step_i!(2);
                step_i!(3);
                step_i!(4);
                assert!(r == expect, "exists() differs from the contract");
                // pre-order ids: exactly the nodes up to the first hit are inspected
                assert!(n_calls == if expect { first + 1 } else { s.n }, "exists() inspected the wrong number of nodes");
                std::mem::forget(t);
            }
            pub fn rewrite(s: &Shape, down: &[Dec; MAXN], up: &[Dec; MAXN]) {
                let t = $build(s, 0);
                let mut rw = Rw { down, up, log: Log::new() };
                let r = ok!(t.rewrite(&mut rw));
                let exp = ref_rewrite(s, down, up, true, true);
                check_rewrite_result(s, r, &rw.log, &exp);
            }
            pub fn transform_down_up(s: &Shape, down: &[Dec; MAXN], up: &[Dec; MAXN]) {
                let t = $build(s, 0);
                let log = std::cell::RefCell::new(Log::new());
                let r = ok!(t.transform_down_up(|n| step(n, down, 0, &mut log.borrow_mut()), |n| step(n, up, 1, &mut log.borrow_mut())));
                let exp = ref_rewrite(s, down, up, true, true);
                check_rewrite_result(s, r, &log.borrow(), &exp);
            }
            pub fn transform_down(s: &Shape, down: &[Dec; MAXN], up: &[Dec; MAXN]) {
                let t = $build(s, 0);
                let mut log = Log::new();
                let r = ok!(t.transform_down(|n| step(n, down, 0, &mut log)));
                let exp = ref_rewrite(s, down, up, true, false);
                check_rewrite_result(s, r, &log, &exp);
            }
            pub fn transform_up(s: &Shape, down: &[Dec; MAXN], up: &[Dec; MAXN]) {
                let t = $build(s, 0);
                let mut log = Log::new();
                let r = ok!(t.transform_up(|n| step(n, up, 1, &mut log)));
                let exp = ref_rewrite(s, down, up, false, true);
                check_rewrite_result(s, r, &log, &exp);
            }
        }
    };
}

drivers!(vnode, VNode, v_build, v_id, v_mark, v_marks);
drivers!(anode, Arc<ANode>, a_build, a_id, a_mark, a_marks);
drivers!(tnode, TNode, t_build, t_id, t_mark, t_marks);
