// ---------------------------------------------------------------- closures / visitors (one instantiation per node type)
// (replaces the generic `drivers!` section of c42_common.rs: tree construction, the reference
//  walk and the result comparison are emitted per shape as straight-line code by k/c42.py, because
//  CBMC cannot bound recursion / loops over heap shapes and every extra unwinding multiplies the cost)

/// unwrap without formatting the error (keeps std::fmt out of the model)
macro_rules! ok {
    ($e:expr) => {
        match $e {
            Ok(v) => v,
            Err(e) => {
                std::mem::forget(e);
                panic!("closure returned an error")
            }
        }
    };
}

macro_rules! reprs {
    ($modname:ident, $N:ty, $id:ident, $mark:ident) => {
        pub mod $modname {
            use super::*;

            pub struct Vis<'d> {
                pub down: &'d [Dec; MAXN],
                pub up: &'d [Dec; MAXN],
                pub log: Log,
            }
            impl<'n, 'd> TreeNodeVisitor<'n> for Vis<'d> {
                type Node = $N;
                fn f_down(&mut self, n: &'n $N) -> Result<TreeNodeRecursion> {
                    let (id, mk) = $id(n);
                    self.log.push(0, id, mk);
                    Ok(tnr_of(self.down[id as usize].tnr))
                }
                fn f_up(&mut self, n: &'n $N) -> Result<TreeNodeRecursion> {
                    let (id, mk) = $id(n);
                    self.log.push(1, id, mk);
                    Ok(tnr_of(self.up[id as usize].tnr))
                }
            }

            pub struct Rw<'d> {
                pub down: &'d [Dec; MAXN],
                pub up: &'d [Dec; MAXN],
                pub log: Log,
            }
            pub fn step(n: $N, d: &[Dec; MAXN], phase: u8, log: &mut Log) -> Result<Transformed<$N>> {
                let (id, mk) = $id(&n);
                log.push(phase, id, mk);
                let dec = d[id as usize];
                let m = if phase == 0 { DOWN_MARK } else { UP_MARK };
                Ok(if dec.tr { Transformed::new($mark(n, m), true, tnr_of(dec.tnr)) } else { Transformed::new(n, false, tnr_of(dec.tnr)) })
            }
            impl<'d> TreeNodeRewriter for Rw<'d> {
                type Node = $N;
                fn f_down(&mut self, n: $N) -> Result<Transformed<$N>> {
                    step(n, self.down, 0, &mut self.log)
                }
                fn f_up(&mut self, n: $N) -> Result<Transformed<$N>> {
                    step(n, self.up, 1, &mut self.log)
                }
            }
            pub fn id_of(n: &$N) -> (u8, u8) {
                $id(n)
            }
        }
    };
}

reprs!(vnode, VNode, v_id, v_mark);
reprs!(anode, Arc<ANode>, a_id, a_mark);
reprs!(tnode, TNode, t_id, t_mark);

/// k-th child of a TNode (no loops)
pub fn t_child(n: &TNode, k: usize) -> &TNode {
    match n {
        TNode::Leaf(..) => panic!("leaf has no child"),
        TNode::Un(_, _, a) => {
            assert!(k == 0, "missing child");
            a
        }
        TNode::Bin(_, _, a, b) => {
            assert!(k < 2, "missing child");
            if k == 0 {
                a
            } else {
                b
            }
        }
        TNode::Tri(_, _, a, r) => {
            assert!(k < 3, "missing child");
            if k == 0 {
                a
            } else {
                &r[k - 1]
            }
        }
    }
}
pub fn t_nkids(n: &TNode) -> usize {
    match n {
        TNode::Leaf(..) => 0,
        TNode::Un(..) => 1,
        TNode::Bin(..) => 2,
        TNode::Tri(_, _, _, r) => 1 + r.len(),
    }
}
