#!/usr/bin/env python3
"""C17 (sequential half) — engine K: Kani on the real memory-pool code.

Extracted verbatim from /repo on every run (datafusion/execution/src/memory_pool/{mod,pool,peak_recording}.rs):
trait MemoryPool, MemoryConsumer, SharedRegistration, MemoryReservation (+Drop), GreedyMemoryPool,
FairSpillPool, insufficient_capacity_err, PeakRecordingPool; compiled against shims for
datafusion_common::{Result, DataFusionError, *_datafusion_err!}, parking_lot::Mutex (single-threaded
cell), log::debug!, human_readable_size.

One harness per pool kind (greedy, fair, peak(greedy), peak(fair)).  Each builds an ARBITRARY reachable
pre-state through the real API (two consumers with symbolic can_spill flags, reservations of symbolic
size, one split-off reservation), optionally resets the peak, then performs ONE operation chosen by the
solver (try_grow, grow, shrink, try_shrink, resize, try_resize, free, split, take, new_empty, drop)
with a symbolic argument and asserts:
  (A1) pool.reserved() == sum of the sizes of the live reservations, before and after
  (A2) a failed try_grow / try_shrink / try_resize leaves every size and the pool total unchanged
  (A3) a granted try_grow of more than 0 bytes stays within the limit (greedy: total <= limit; fair: non-spillable total <= limit,
       spillable reservation <= (limit - unspillable) / num_spill)
  (A4) peak-recording: peak >= current total, max >= peak, and after a reset the peak is exactly
       max(total at reset, total after the operation)
  (A5) after every reservation is dropped reserved() == 0
All sizes/arguments/limits are symbolic up to 2^40 (sums cannot wrap); because the pre-state is arbitrary
the single step is the inductive step for histories of any length.  Concurrent interleavings and
TrackConsumersPool (hashbrown map) are outside.
"""
import json
import os
import re
import subprocess
import sys
import time

sys.path.insert(0, os.path.dirname(os.path.dirname(os.path.abspath(__file__))))
from vlib import common as C
from vlib.rsextract import extract_item, find_item, mask_noncode, AnchorMoved
from k import kani_run as K

PID = "C17"
DIR = "datafusion/execution/src/memory_pool/"
WORK = os.path.join(C.BUILD, "C17")
CRATE = os.path.join(WORK, "crate")

SHIMS = r'''
#![allow(dead_code, unused_imports, unused_variables, unused_macros, unused_mut)]
extern crate alloc;

// ---- shims (contracts only) ----
pub mod shim {
    pub type Result<T, E = DataFusionError> = std::result::Result<T, E>;
    #[derive(Debug)]
    pub enum DataFusionError {
        Internal(String),
        ResourcesExhausted(String),
    }
    /// formatting is not the subject
    pub fn human_readable_size(_size: usize) -> &'static str {
        ""
    }
    /// parking_lot::Mutex stand-in for single-threaded symbolic execution
    pub struct Mutex<T>(std::cell::RefCell<T>);
    unsafe impl<T> Sync for Mutex<T> {}
    unsafe impl<T> Send for Mutex<T> {}
    impl<T> Mutex<T> {
        pub fn new(t: T) -> Self {
            Mutex(std::cell::RefCell::new(t))
        }
        pub fn lock(&self) -> std::cell::RefMut<'_, T> {
            self.0.borrow_mut()
        }
    }
    impl<T> std::fmt::Debug for Mutex<T> {
        fn fmt(&self, _f: &mut std::fmt::Formatter<'_>) -> std::fmt::Result {
            Ok(())
        }
    }
}
macro_rules! internal_datafusion_err {
    ($($a:tt)*) => { $crate::shim::DataFusionError::Internal(format!($($a)*)) };
}
macro_rules! resources_datafusion_err {
    ($($a:tt)*) => { $crate::shim::DataFusionError::ResourcesExhausted(format!($($a)*)) };
}
macro_rules! debug {
    ($($a:tt)*) => {};
}

pub mod memory_pool {
    use crate::shim::{DataFusionError, Result};
    use std::any::Any;
    use std::fmt::Display;
    use std::hash::{Hash, Hasher};
    use std::{cmp::Ordering, sync::atomic, sync::Arc};
    // ---- verbatim from mod.rs ----
//@MOD@
    /// harness helper (not from /repo): leaks one reference to the registration so that the registration itself is
    /// never destroyed (Kani 0.68 mis-models the drop glue of Arc<SharedRegistration>; see `cuts`)
    pub fn keep_alive(r: &MemoryReservation) {
        std::mem::forget(Arc::clone(&r.registration));
    }
    pub mod pool {
        use super::{MemoryConsumer, MemoryLimit, MemoryPool, MemoryReservation};
        use crate::shim::{human_readable_size, DataFusionError, Mutex, Result};
        use std::fmt::{Display, Formatter};
        use std::sync::atomic::{AtomicUsize, Ordering};
        // ---- verbatim from pool.rs ----
//@POOL@
    }
    pub mod peak_recording {
        use super::{MemoryConsumer, MemoryLimit, MemoryPool, MemoryReservation};
        use crate::shim::Result;
        use std::fmt::{Debug, Display, Formatter};
        use std::sync::atomic::{AtomicUsize, Ordering};
        use std::sync::Arc;
        // ---- verbatim from peak_recording.rs ----
//@PEAK@
    }
}
'''

HARNESS = r'''
// ---- harness ----
use memory_pool::{MemoryConsumer, MemoryPool, MemoryReservation};
use std::sync::Arc;

pub const NOPS: u8 = 11;
pub const KIND: u8 = //@KIND@;

/// stands in for the peak recorder in the crates that do not contain one
pub struct NoPeak;
impl NoPeak {
    pub fn peak_reserved(&self) -> usize {
        0
    }
    pub fn max_reserved(&self) -> usize {
        0
    }
    pub fn reset_peak(&self) {}
}


#[allow(clippy::too_many_arguments)]
pub fn check_step(limit: usize, spill_a: bool, spill_b: bool, s1: usize, s2: usize, k3: usize, reset: bool, op: u8, arg: usize) {
    let fair = KIND == 1 || KIND == 3;
    //@SETUP@
    let a = MemoryConsumer::new("").with_can_spill(spill_a);
    let b = MemoryConsumer::new("").with_can_spill(spill_b);
    let mut r1 = a.register(&pool);
    let r2 = b.register(&pool);
    memory_pool::keep_alive(&r1);
    memory_pool::keep_alive(&r2);
    r1.grow(s1);
    r2.grow(s2);
    let mut r3 = Some(r1.split(k3));
    let sz3 = |r: &Option<MemoryReservation>| r.as_ref().map(|r| r.size()).unwrap_or(0);
    assert!(pool.reserved() == r1.size() + r2.size() + sz3(&r3), "A1 reserved() differs from the sum of live reservations (pre-state)");
    if let Some(p) = peak {
        assert!(p.peak_reserved() >= pool.reserved() && p.max_reserved() >= p.peak_reserved(), "A4 peak below current total (pre-state)");
        if reset {
            p.reset_peak();
        }
    }
    let (p1, p2, p3, ptot) = (r1.size(), r2.size(), sz3(&r3), pool.reserved());
    let ppeak = peak.map(|p| p.peak_reserved()).unwrap_or(0);
    let mut extra: Option<MemoryReservation> = None;
    let mut unchanged = false;
    match op {
        0 => {
            let r = r1.try_grow(arg);
            let ok = r.is_ok();
            std::mem::forget(r);
            if ok {
                assert!(r1.size() == p1 + arg, "try_grow Ok must add exactly the requested bytes");
                if !fair {
                    assert!(arg == 0 || pool.reserved() <= limit, "A3 greedy pool granted a fallible growth beyond its limit");
                } else if !spill_a {
                    assert!(arg == 0 || pool.reserved() <= limit, "A3 fair pool granted a non-spillable growth beyond its limit");
                } else {
                    let unspill = if spill_b { 0 } else { p2 };
                    let n = 1 + spill_b as usize;
                    assert!(arg == 0 || r1.size() <= limit.saturating_sub(unspill) / n, "A3 fair pool granted a spillable growth beyond the fair share");
                }
            } else {
                unchanged = true;
            }
        }
        1 => {
            r1.grow(arg);
            assert!(r1.size() == p1 + arg, "grow must add exactly the requested bytes");
        }
        2 => {
            if arg <= p1 {
                r1.shrink(arg);
                assert!(r1.size() == p1 - arg, "shrink must remove exactly the requested bytes");
            } else {
                unchanged = true;
            }
        }
        3 => {
            let r = r1.try_shrink(arg);
            match &r {
                Ok(n) => assert!(arg <= p1 && *n == p1 - arg && r1.size() == p1 - arg, "try_shrink Ok must remove exactly the requested bytes"),
                Err(_) => {
                    assert!(arg > p1, "try_shrink failed although the capacity was available");
                    unchanged = true;
                }
            }
            std::mem::forget(r);
        }
        4 => {
            r1.resize(arg);
            assert!(r1.size() == arg, "resize must set the size");
        }
        5 => {
            let r = r1.try_resize(arg);
            let ok = r.is_ok();
            std::mem::forget(r);
            if ok {
                assert!(r1.size() == arg, "try_resize Ok must set the size");
                if arg > p1 && (!fair || !spill_a) {
                    assert!(pool.reserved() <= limit, "A3 pool granted a fallible resize beyond its limit");
                }
            } else {
                unchanged = true;
            }
        }
        6 => {
            let n = r1.free();
            assert!(n == p1 && r1.size() == 0, "free must release the whole reservation");
        }
        7 => {
            if arg <= p1 {
                extra = Some(r1.split(arg));
                assert!(r1.size() == p1 - arg && sz3(&extra) == arg, "split must move exactly the requested bytes");
            } else {
                unchanged = true;
            }
        }
        8 => {
            extra = Some(r1.take());
            assert!(r1.size() == 0 && sz3(&extra) == p1, "take must move the whole reservation");
        }
        9 => {
            extra = Some(r1.new_empty());
            assert!(sz3(&extra) == 0, "new_empty must be empty");
            unchanged = true;
        }
        _ => {
            drop(r3.take());
        }
    }
    let tot = r1.size() + r2.size() + sz3(&r3) + sz3(&extra);
    assert!(pool.reserved() == tot, "A1 reserved() differs from the sum of live reservations");
    if unchanged {
        assert!(r1.size() == p1 && r2.size() == p2 && sz3(&r3) == p3 && pool.reserved() == ptot, "A2 a failed or empty operation changed the accounting");
    }
    if let Some(p) = peak {
        assert!(p.peak_reserved() >= tot && p.max_reserved() >= p.peak_reserved(), "A4 peak below current total");
        if reset {
            assert!(p.peak_reserved() == ptot.max(tot), "A4 peak since reset is not the maximum total since the reset");
        } else {
            assert!(p.peak_reserved() == ppeak.max(tot), "A4 peak is not the running maximum");
        }
    }
    drop(extra);
    drop(r3);
    drop(r1);
    assert!(pool.reserved() == r2.size(), "A5 dropping a reservation must release exactly its bytes");
    drop(r2);
    assert!(pool.reserved() == 0, "A5 reserved() does not return to zero once every reservation is dropped");
}

#[cfg(kani)]
mod proofs {
    use super::*;
    fn no_format(_args: std::fmt::Arguments<'_>) -> String {
        String::new()
    }
    fn run(op: u8) {
        let b: usize = 1 << 40;
        let (limit, s1, s2, k3, arg): (usize, usize, usize, usize, usize) = (kani::any(), kani::any(), kani::any(), kani::any(), kani::any());
        kani::assume(limit <= b && s1 <= b && s2 <= b && arg <= b && k3 <= s1);
        check_step(limit, kani::any(), kani::any(), s1, s2, k3, kani::any(), op, arg);
        kani::cover!(true, "end of harness reachable");
    }
//@PROOFS@
}
'''

PROOF = '''    #[kani::proof]
    #[kani::unwind(3)]
    #[kani::stub(alloc::fmt::format, no_format)]
    fn c17_%s_op%d() {
        run(%d);
    }
'''

NATIVE = r'''
use c17k::*;
const _: u8 = KIND;
fn main() {
    std::panic::set_hook(Box::new(|_| {}));
    let kind = KIND;
    let only: Option<u8> = std::env::args().nth(1).and_then(|s| s.parse().ok());
    let vals: [usize; 7] = [0, 1, 2, 3, 7, 8, 100];
    for limit in [0usize, 1, 4, 8, 9, 100] { for sa in [false, true] { for sb in [false, true] {
    for s1 in [0usize, 1, 3, 8] { for s2 in [0usize, 2, 8] { for k3 in [0usize, 1, 3, 8] { if k3 > s1 { continue; }
    for reset in [false, true] { for op in 0..NOPS { if only.is_some() && only != Some(op) { continue; } for arg in vals {
        let r = std::panic::catch_unwind(|| check_step(limit, sa, sb, s1, s2, k3, reset, op, arg));
        if let Err(e) = r {
            let msg = e.downcast_ref::<&str>().map(|s| s.to_string()).or_else(|| e.downcast_ref::<String>().cloned()).unwrap_or_default();
            println!("FAIL kind={kind} limit={limit} can_spill=({sa},{sb}) sizes=({s1},{s2}) split={k3} reset={reset} op={op} arg={arg} :: {msg}");
            return;
        }
    } } } } } } } } }
    println!("PASS");
}
'''

KINDS = [("greedy", 0), ("fair", 1), ("peak_greedy", 2), ("peak_fair", 3)]


def indent(text, n):
    pad = " " * n
    return "\n".join((pad + l if l.strip() else l) for l in text.split("\n"))


def crate_dir(kname):
    return os.path.join(WORK, "crate-" + kname)


def build_crate(kname, kind):
    """One crate per pool kind, containing ONLY the pool implementations that kind needs: CBMC resolves a `dyn MemoryPool`
    call to every implementation present in the crate, so unrelated (and self-nesting) implementations multiply the formula.
    For the peak-recording kinds the wrapper's `inner: Arc<dyn MemoryPool>` is monomorphised to the concrete inner pool
    (a type substitution in two places; recorded as a cut) so that the wrapper cannot be resolved as its own inner pool."""
    rd = lambda f: open(os.path.join(C.REPO, DIR, f)).read()
    mod, pool, peak = rd("mod.rs"), rd("pool.rs"), rd("peak_recording.rs")
    mm = mask_noncode(mod)
    s0, _ = find_item(mod, r"pub\s+trait\s+MemoryPool\b", masked=mm)
    _, e1 = find_item(mod, r"impl\s+Drop\s+for\s+MemoryReservation\b", masked=mm)
    mod_part = mod[s0:e1]
    greedy = [r"pub\s+struct\s+GreedyMemoryPool\b", r"impl\s+GreedyMemoryPool\b", r"impl\s+MemoryPool\s+for\s+GreedyMemoryPool\b"]
    fair = [r"pub\s+struct\s+FairSpillPool\b", r"struct\s+FairSpillPoolState\b", r"impl\s+FairSpillPool\b", r"impl\s+MemoryPool\s+for\s+FairSpillPool\b"]

    def no_fmt(text, types, display=()):
        """formatting is not the subject and CBMC resolves indirect calls to every derived Debug chain: the derives are
        replaced by empty impls (the trait MemoryPool requires Debug + Display)"""
        text = text.replace("#[derive(Debug)]", "")
        for t in types:
            text += "\nimpl std::fmt::Debug for %s { fn fmt(&self, _f: &mut std::fmt::Formatter<'_>) -> std::fmt::Result { Ok(()) } }" % t
        for t in display:
            text += "\nimpl std::fmt::Display for %s { fn fmt(&self, _f: &mut std::fmt::Formatter<'_>) -> std::fmt::Result { Ok(()) } }" % t
        return text
    mod_part = no_fmt(mod_part, ["MemoryConsumer", "SharedRegistration", "MemoryReservation"])
    inner = "FairSpillPool" if kind in (1, 3) else "GreedyMemoryPool"
    pool_items = (fair if kind in (1, 3) else greedy) + [r"fn\s+insufficient_capacity_err\b"]
    pool_part = "\n".join(extract_item(pool, h) for h in pool_items)
    pool_part = no_fmt(pool_part, ["FairSpillPool", "FairSpillPoolState"] if kind in (1, 3) else ["GreedyMemoryPool"], [inner])
    peak_part = ""
    cuts = ["#[derive(Debug)] and the Display impls of the extracted types replaced by empty impls",
            "the SharedRegistration objects are kept alive (one leaked Arc reference each): SharedRegistration::drop -> MemoryPool::unregister is not executed, "
            "because Kani 0.68 reports spurious __rust_dealloc failures in the drop glue of the consumer's name String (reads a capacity of 1 for String::new())",
            "PeakRecordingPool::from_pool (dyn Any downcast) is not used: -Z restrict-vtable has no definition for <dyn Any>::is"]
    if kind >= 2:
        peak_items = [r"pub\s+struct\s+PeakRecordingPool\b", r"impl\s+PeakRecordingPool\b", r"impl\s+MemoryPool\s+for\s+PeakRecordingPool\b"]
        peak_part = no_fmt("\n".join(extract_item(peak, h) for h in peak_items), ["PeakRecordingPool"], ["PeakRecordingPool"])
        n = peak_part.count("inner: Arc<dyn MemoryPool>")
        if n != 2:
            raise AnchorMoved("PeakRecordingPool: expected `inner: Arc<dyn MemoryPool>` twice (field and constructor), found %d" % n)
        peak_part = "use super::pool::%s;\n" % inner + peak_part.replace("inner: Arc<dyn MemoryPool>", "inner: Arc<%s>" % inner)
        cuts.append("PeakRecordingPool.inner: Arc<dyn MemoryPool> -> Arc<%s>" % inner)
        setup = ("let pk = Arc::new(memory_pool::peak_recording::PeakRecordingPool::new(Arc::new(memory_pool::pool::%s::new(limit))));\n"
                 "    let pool: Arc<dyn MemoryPool> = pk.clone();\n    let peak = Some(pk.as_ref());" % inner)
    else:
        setup = "let pool: Arc<dyn MemoryPool> = Arc::new(memory_pool::pool::%s::new(limit));\n    let peak = None::<&NoPeak>;" % inner
    lib = SHIMS.replace("//@MOD@", mod_part).replace("//@POOL@", pool_part).replace("//@PEAK@", peak_part)
    proofs = "".join(PROOF % (kname, op, op) for op in range(11))
    lib += HARNESS.replace("//@PROOFS@", proofs).replace("//@KIND@", str(kind)).replace("//@SETUP@", setup)
    K.write_crate(crate_dir(kname), "c17k", lib, "", lock_from=None)
    return len(mod_part.split("\n")) + len(pool_part.split("\n")) + len(peak_part.split("\n")), cuts


def native_replay(kname, op=None):
    CRATE = crate_dir(kname)
    env = dict(os.environ)
    env.update({"CARGO_NET_OFFLINE": "true", "CARGO_TARGET_DIR": os.path.join(WORK, "target-native")})
    os.makedirs(os.path.join(CRATE, "src", "bin"), exist_ok=True)
    nb = os.path.join(CRATE, "src", "bin", "native.rs")
    with open(nb, "w") as f:
        f.write(NATIVE)
    outs = []
    try:
        for prof in ([], ["--release"]):
            p = subprocess.run(["cargo", "build", "--offline", "--bin", "native"] + prof, cwd=CRATE, env=env, capture_output=True, text=True)
            if p.returncode != 0:
                return None, "native build failed: " + p.stderr[-400:]
            b = os.path.join(WORK, "target-native", "release" if prof else "debug", "native")
            r = subprocess.run([b] + ([str(op)] if op is not None else []), capture_output=True, text=True, timeout=900)
            outs.append(r.stdout.strip())
    finally:
        os.remove(nb)
    fails = [o for o in outs if o.startswith("FAIL")]
    if fails:
        return fails[0] + (" (dev and release)" if len(fails) == 2 else " (one profile only: %s)" % outs), None
    return None, "native search over boundary values found no failing case (%s)" % outs


def main():
    t0 = time.time()
    quick = C.tier() == "quick"
    nlines, cuts = 0, []
    try:
        for kname, kind in KINDS:
            n, c = build_crate(kname, kind)
            nlines = max(nlines, n)
            cuts += c
            nb = os.path.join(crate_dir(kname), "src", "bin", "native.rs")
            if os.path.exists(nb):
                os.remove(nb)
    except AnchorMoved as e:
        C.write_evidence(PID, "model_checking", {"states": 0, "transitions": 0, "explanation": "anchor moved: %s" % e}, [], time.time() - t0, 0)
        C.finish(PID, [], [], ["anchor moved: %s" % e])
    import concurrent.futures as cf
    results, logs, hs = {}, [], []
    per_kind = {kname: ["c17_%s_op%d" % (kname, op) for op in range(11)] for kname, _ in KINDS}
    # quick tier: only the harnesses whose measured CBMC time (k/c17_calibration.json, this image, 12 concurrent) is <= 150 s;
    # the thorough tier runs all 44
    cal = json.load(open(os.path.join(os.path.dirname(os.path.abspath(__file__)), "c17_calibration.json")))
    skipped = []
    if quick:
        for kname in per_kind:
            keep = [h for h in per_kind[kname] if cal.get(h, {}).get("status") == "SUCCESSFUL" and cal.get(h, {}).get("cbmc_s", 1e9) <= 150]
            skipped += [h for h in per_kind[kname] if h not in keep]
            per_kind[kname] = keep
    weights = {h: float(v.get("cbmc_s", 100)) for h, v in cal.items()}
    # VERIF_ONLY=<substring>[,<substring>]: development aid (used when trying seeded changes) - run only the matching harnesses
    only = [o for o in os.environ.get("VERIF_ONLY", "").split(",") if o]
    if only:
        for kname in per_kind:
            skipped += [h for h in per_kind[kname] if not any(o in h for o in only)]
            per_kind[kname] = [h for h in per_kind[kname] if any(o in h for o in only)]
    for v in per_kind.values():
        hs += v

    def run_kind(kname):
        root = os.path.join(WORK, "k-" + kname)
        os.makedirs(root, exist_ok=True)
        if not per_kind[kname]:
            return {}, []
        return K.run_all(crate_dir(kname), root, per_kind[kname], 3, 1500 if quick else 3600, 12, ["-Z", "stubbing", "-Z", "restrict-vtable"], weights)
    with cf.ThreadPoolExecutor(max_workers=4) as pool:
        for r, l in pool.map(run_kind, [k for k, _ in KINDS]):
            results.update(r)
            logs += l
    ok = [h for h in hs if results[h]["status"] == "SUCCESSFUL" and results[h]["covers_unsatisfied"] == 0]
    failed = [h for h in hs if results[h]["status"] == "FAILED"]
    undec = [h for h in hs if h not in ok and h not in failed]
    violations, known_hits, inconclusive, msgs = [], [], [], []
    os.makedirs(os.path.join(C.BUILD, "replay"), exist_ok=True)
    replayed = 0
    for h in failed:
        m = re.match(r"c17_(\w+)_op(\d+)$", h)
        kname, op = m.group(1), int(m.group(2))
        vec, err = native_replay(kname, op)
        replayed += 1
        checks = "; ".join(results[h]["failed_checks"][:3])
        if vec:
            m = re.search(r":: (.*?)( \((dev|one)|$)", vec)
            sig = "C17:%s:%s" % (kname, (m.group(1).strip() if m else "?"))
            rp = os.path.join(C.BUILD, "replay", "C17_%s.json" % h)
            json.dump({"property": PID, "harness": h, "failed_checks": results[h]["failed_checks"], "native_counterexample": vec}, open(rp, "w"), indent=1)
            kf = C.match_known(PID, sig)
            if kf:
                known_hits.append(kf.get("what", sig))
            else:
                violations.append((sig, rp))
                msgs.append("counterexample (%s): %s" % (h, vec))
        else:
            inconclusive.append("Kani reports %s FAILED (%s) but %s" % (h, checks, err))
    # a harness that did not finish (time or memory cap) is not claimed in this run; the run is inconclusive only
    # when more than a fifth of the harnesses did not finish
    for h in undec:
        line = "harness %s undecided: %s" % (h, results[h])
        if len(undec) * 5 > len(hs):
            inconclusive.append(line)
        else:
            msgs.append("NOT-DECIDED (not claimed in this run) " + line)
    times = [results[h]["time_s"] for h in hs if results[h]["time_s"]]
    cov = {
        "states": len(ok),
        "transitions": len(ok),
        "traces_validated_against_impl": replayed,
        "samples": [{"harness": h, "status": results[h]["status"], "cbmc_s": results[h]["time_s"], "failed_checks": results[h]["failed_checks"][:3]} for h in (hs[:6] + failed[:4])],
        "harnesses_total": len(hs), "harnesses_successful": len(ok), "harnesses_failed": len(failed), "harnesses_undecided": len(undec),
        "harnesses_left_to_the_thorough_tier": skipped,
        "explanation": "`states` = Kani harnesses (pool kind {greedy, fair, peak-recording over each} x reservation operation {try_grow, grow, shrink, try_shrink, resize, try_resize, free, "
                       "split, take, new_empty, drop}) verified SUCCESSFUL with reachable end-of-harness cover; each starts from an arbitrary API-reachable pre-state: the inductive step of the accounting invariant",
        "cuts": cuts,
        "functions_encoded": ["MemoryReservation::{size,free,shrink,try_shrink,resize,try_resize,grow,try_grow,split,new_empty,take,drop}", "MemoryConsumer::{new,with_can_spill,register}",
                              "GreedyMemoryPool::{grow,shrink,try_grow,reserved}", "FairSpillPool::{register,unregister,grow,shrink,try_grow,reserved}",
                              "PeakRecordingPool::{record,reset_peak,peak_reserved,max_reserved,grow,shrink,try_grow}", "insufficient_capacity_err"],
        "source_lines_extracted": nlines,
        "stubs": ["parking_lot::Mutex -> single-threaded cell", "alloc::fmt::format -> empty string", "human_readable_size -> empty &str (a dropped empty String temporary trips a spurious dealloc check under -Z restrict-vtable)", "log::debug! -> nothing",
                  "DataFusionError reduced to Internal / ResourcesExhausted"],
        "bounds": "2 consumers, 3 reservations (+1 created by the step), sizes / limit / argument <= 2^40, one operation per harness from an arbitrary pre-state, unwind 3 (compare-exchange loops run once sequentially)",
        "outside": ["concurrent interleavings of threads sharing reservations (Kani is sequential)", "TrackConsumersPool (hashbrown map) and its per-consumer metrics", "sizes above 2^40 (wrapping additions)",
                    "UnboundedMemoryPool"],
        "solver_time_s": round(sum(times), 1) if times else 0, "queries": len(hs), "engine": "Kani 0.68 (-Z stubbing -Z restrict-vtable) / CBMC 6.11 / CaDiCaL", "logs": logs[:4],
    }
    C.write_evidence(PID, "model_checking", cov, ["single-threaded execution of the relaxed atomics and of the mutex", "shims listed under `stubs`"], time.time() - t0, len(violations))
    C.finish(PID, violations, known_hits, inconclusive, msgs)


if __name__ == "__main__":
    main()
