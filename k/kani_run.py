"""Shared runner for engine-K checks: builds a scratch Kani crate and runs its harnesses in
parallel worker groups (each group = one `cargo kani` invocation with its own target dir).

Result per harness: SUCCESSFUL / FAILED (with failed checks) / UNDECIDED (timeout, out of memory,
Kani internal error, unwinding assertion failure, unsatisfied cover).  Only FAILED with a failed
property assertion is a candidate violation; it is then replayed natively by the caller."""
import os
import re
import resource
import shutil
import subprocess
import time
import concurrent.futures as cf

KANI_ENV = {"CARGO_NET_OFFLINE": "true"}


def write_crate(cdir, name, lib_rs, deps_toml, lock_from="/repo/Cargo.lock"):
    os.makedirs(os.path.join(cdir, "src"), exist_ok=True)
    os.makedirs(os.path.join(cdir, ".cargo"), exist_ok=True)
    with open(os.path.join(cdir, "Cargo.toml"), "w") as f:
        f.write('[package]\nname = "%s"\nversion = "0.1.0"\nedition = "2021"\n\n[workspace]\n\n[lib]\npath = "src/lib.rs"\n\n'
                '[dependencies]\n%s\n\n[lints.rust]\nunexpected_cfgs = { level = "allow", check-cfg = ["cfg(kani)"] }\n' % (name, deps_toml))
    with open(os.path.join(cdir, ".cargo", "config.toml"), "w") as f:
        f.write("[net]\noffline = true\n")
    new = lib_rs
    p = os.path.join(cdir, "src", "lib.rs")
    old = open(p).read() if os.path.exists(p) else None
    if old != new:
        with open(p, "w") as f:
            f.write(new)
    if not os.path.exists(os.path.join(cdir, "Cargo.lock")) and lock_from:
        shutil.copy(lock_from, os.path.join(cdir, "Cargo.lock"))


def _limit(mem_gb):
    def f():
        b = int(mem_gb * (1 << 30))
        resource.setrlimit(resource.RLIMIT_AS, (b, b))
    return f


def parse_kani_output(text, harnesses):
    """returns {harness: dict(status, failed_checks, covers_unsat, time_s)}"""
    res = {}
    parts = re.split(r"Checking harness ([\w:]+)\.\.\.", text)
    # parts = [pre, name1, body1, name2, body2...]
    for i in range(1, len(parts), 2):
        name = parts[i].split("::")[-1]
        body = parts[i + 1]
        st = "UNDECIDED"
        m = re.search(r"VERIFICATION:- (SUCCESSFUL|FAILED)", body)
        if m:
            st = m.group(1)
        failed = re.findall(r"Failed Checks: (.*)", body)
        unwind_fail = any("unwinding assertion" in f for f in failed)
        covers_bad = len(re.findall(r"Status: (UNSATISFIABLE|UNREACHABLE)", body)) if "cover" in body else 0
        # cover lines look like: "Check N: fn.cover.1 - Status: SATISFIED"
        cov_un = 0
        for cm in re.finditer(r"\.cover\.\d+\s*\n\s*- Status: (\w+)", body):
            if cm.group(1) != "SATISFIED":
                cov_un += 1
        tm = re.search(r"Verification Time: ([\d.]+)s", body)
        if st == "FAILED" and (unwind_fail or "Status: ERROR" in body or "CBMC failed" in body or "out of memory" in body.lower()):
            # an unwinding-assertion failure or a tool error is not a property violation
            only_unwind = all("unwinding assertion" in f for f in failed) if failed else True
            if only_unwind:
                st = "UNDECIDED"
        res[name] = {"status": st, "failed_checks": failed[:6], "covers_unsatisfied": cov_un, "time_s": float(tm.group(1)) if tm else None}
    for h in harnesses:
        if h not in res:
            res[h] = {"status": "UNDECIDED", "failed_checks": [], "covers_unsatisfied": 0, "time_s": None, "note": "no result in Kani output"}
    return res


def run_group(cdir, target_dir, harnesses, timeout_s, mem_gb, extra_args, log_path):
    cmd = ["cargo", "kani", "--target-dir", target_dir] + extra_args
    for h in harnesses:
        cmd += ["--harness", h]
    env = dict(os.environ)
    env.update(KANI_ENV)
    t0 = time.time()
    # own process group: on timeout the whole tree (cargo -> kani-driver -> cbmc) is killed, not just cargo
    lim = _limit(mem_gb)

    def pre():
        os.setsid()
        lim()
    p = subprocess.Popen(cmd, cwd=cdir, env=env, stdout=subprocess.PIPE, stderr=subprocess.PIPE, text=True, preexec_fn=pre)
    try:
        so, se = p.communicate(timeout=timeout_s)
        out = so + "\n" + se
    except subprocess.TimeoutExpired:
        try:
            os.killpg(p.pid, 9)
        except ProcessLookupError:
            pass
        so, se = p.communicate()
        out = (so or "") + "\nGROUP TIMEOUT after %ds\n" % timeout_s
    with open(log_path, "w") as f:
        f.write(out)
    return parse_kani_output(out, harnesses), time.time() - t0, out


def prepare_targets(cdir, build_root, n, log_path=None, warm_harness=None):
    """Compile the crate (and its dependencies) for Kani ONCE into target-0 and copy that directory for the
    other workers: n concurrent cold builds of datafusion-common + arrow would eat the whole time budget."""
    env = dict(os.environ)
    env.update(KANI_ENV)
    t0 = os.path.join(build_root, "target-0")
    # codegen of ONE harness is enough to compile every dependency (each harness has its own codegen unit)
    cmd = ["cargo", "kani", "--only-codegen", "--target-dir", t0] + (["--harness", warm_harness] if warm_harness else [])
    p = subprocess.run(cmd, cwd=cdir, env=env, capture_output=True, text=True)
    if log_path:
        with open(log_path, "w") as f:
            f.write(p.stdout + "\n" + p.stderr)
    if p.returncode != 0:
        return False, (p.stdout + p.stderr)[-2000:]
    # the other workers' target dirs: warmed concurrently (a copied target dir is not accepted by cargo);
    # cold this costs a few minutes once (setup.sh does it), afterwards it is a no-op
    def warm(i):
        ti = os.path.join(build_root, "target-%d" % i)
        c = ["cargo", "kani", "--only-codegen", "--target-dir", ti] + (["--harness", warm_harness] if warm_harness else [])
        return subprocess.run(c, cwd=cdir, env=env, capture_output=True, text=True).returncode
    with cf.ThreadPoolExecutor(max_workers=max(1, n - 1)) as pool:
        rcs = list(pool.map(warm, range(1, n)))
    if any(rcs):
        return False, "warming a worker target dir failed"
    return True, ""


def run_all(cdir, build_root, harnesses, workers, timeout_s, mem_gb, extra_args=None, weights=None):
    """Split harnesses into `workers` groups and run them concurrently: round-robin, or (with `weights`, the
    expected seconds per harness) longest-first onto the least loaded group so that no group is the straggler."""
    extra_args = extra_args or []
    groups = [[] for _ in range(max(1, min(workers, len(harnesses))))]
    if weights:
        load = [0.0] * len(groups)
        for h in sorted(harnesses, key=lambda h: -weights.get(h, 1.0)):
            gi = load.index(min(load))
            groups[gi].append(h)
            load[gi] += weights.get(h, 1.0) + 5.0
    else:
        for i, h in enumerate(harnesses):
            groups[i % len(groups)].append(h)
    results = {}
    logs = []
    with cf.ThreadPoolExecutor(max_workers=len(groups)) as pool:
        futs = []
        for gi, g in enumerate(groups):
            tdir = os.path.join(build_root, "target-%d" % gi)
            lp = os.path.join(build_root, "kani-%d.log" % gi)
            logs.append(lp)
            futs.append(pool.submit(run_group, cdir, tdir, g, timeout_s, mem_gb, extra_args, lp))
        for f in futs:
            r, secs, _ = f.result()
            results.update(r)
    return results, logs
