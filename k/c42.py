#!/usr/bin/env python3
"""C42 — tree traversal / rewriting contract (engine K: Kani bounded model checking of the real
datafusion_common::tree_node code through its public API).

For every ordered tree shape up to N nodes (<= 3 children per node), every traversal method
(visit, apply, exists, rewrite, transform_down, transform_up, transform_down_up) and each of three
node representations (ConcreteTreeNode / Arc<DynTreeNode> / tuple+Box+Vec containers), one Kani
harness makes the per-node closure decisions symbolic (Continue/Jump/Stop x transformed-or-not for
f_down and f_up of every node) and asserts that the real walk equals a reference interpreter of the
documented contract: same visit sequence, same final recursion state, same rewritten tree, same
changed-flag.  CBMC decides each harness for ALL decision vectors.
"""
import itertools
import json
import os
import subprocess
import sys
import time

sys.path.insert(0, os.path.dirname(os.path.dirname(os.path.abspath(__file__))))
from vlib import common as C
from k import kani_run as K

PID = "C42"
HERE = os.path.dirname(os.path.abspath(__file__))
WORK = os.path.join(C.BUILD, "C42")
CRATE = os.path.join(WORK, "crate")
MAXN = 5
METHODS = ["visit", "apply", "exists", "rewrite", "transform_down", "transform_up", "transform_down_up"]
REPRS = ["vnode", "anode", "tnode"]
CONTAINERS = ["cont_map_tuple2", "cont_map_tuple3", "cont_map_vec3", "cont_map_box_vec", "cont_map_option", "cont_apply_tuple2", "cont_apply_tuple3",
              "cont_apply_vec3", "cont_apply_ref_tuple2", "cont_apply_ref_tuple3", "cont_apply_ref_vec3", "cont_transform_tables"]


def trees(n, maxkids=3):
    """all ordered trees with n nodes, as nested tuples of children"""
    if n == 1:
        return [()]
    out = []
    # split n-1 nodes among k children (ordered compositions)
    for k in range(1, maxkids + 1):
        for comp in compositions(n - 1, k):
            for kids in itertools.product(*[trees(c, maxkids) for c in comp]):
                out.append(tuple(kids))
    return out


def compositions(n, k):
    if k == 1:
        return [(n,)] if n >= 1 else []
    out = []
    for first in range(1, n - k + 2):
        for rest in compositions(n - first, k - 1):
            out.append((first,) + rest)
    return out


def shape_arrays(t):
    """pre-order numbering -> (n, nk[], kids[][])"""
    nk = []
    kids = []

    def walk(node):
        i = len(nk)
        nk.append(len(node))
        kids.append([])
        for c in node:
            ci = walk(c)
            kids[i].append(ci)
        return i

    walk(t)
    n = len(nk)
    nk = nk + [0] * (MAXN - n)
    kids = [k + [0] * (3 - len(k)) for k in kids] + [[0, 0, 0]] * (MAXN - n)
    return n, nk, kids


def shape_rs(t):
    n, nk, kids = shape_arrays(t)
    return "Shape { n: %d, nk: %s, kids: [%s] }" % (n, str(nk), ", ".join(str(k) for k in kids))


def depth(t):
    return 1 + max([depth(c) for c in t], default=0)


def maxkids(t):
    return max([len(t)] + [maxkids(c) for c in t])


def unwind_for(t):
    """loops over children need kids+1, recursion needs depth+1; CBMC cannot bound either from the heap
    shape, so every extra unwinding multiplies the formula: the bound is sized for the shape"""
    return max(maxkids(t), depth(t)) + 1


def shape_str(t):
    return "(" + "".join(shape_str(c) for c in t) + ")"


class Node:
    def __init__(self, i, kids, path):
        self.i, self.kids, self.path = i, kids, path


def number(t):
    """pre-order ids; returns (root Node, list of nodes by id)"""
    nodes = []

    def walk(t, path):
        n = Node(len(nodes), [], path)
        nodes.append(n)
        for k, c in enumerate(t):
            n.kids.append(walk(c, path + [k]))
        return n

    return walk(t, []), nodes


def tree_literal(r, n):
    kids = [tree_literal(r, c) for c in n.kids]
    if r == "vnode":
        return "VNode { id: %d, mk: 0, ch: vec![%s] }" % (n.i, ", ".join(kids))
    if r == "anode":
        return "Arc::new(ANode { id: %d, mk: 0, ch: vec![%s] })" % (n.i, ", ".join(kids))
    if len(kids) == 0:
        return "TNode::Leaf(%d, 0)" % n.i
    if len(kids) == 1:
        return "TNode::Un(%d, 0, Box::new(%s))" % (n.i, kids[0])
    if len(kids) == 2:
        return "TNode::Bin(%d, 0, Box::new(%s), Box::new(%s))" % (n.i, kids[0], kids[1])
    return "TNode::Tri(%d, 0, Box::new(%s), vec![%s, %s])" % (n.i, kids[0], kids[1], kids[2])


def access(r, root, path):
    """Rust expression for a reference to the node at `path` below `root`"""
    e = root
    for k in path:
        e = "t_child(%s, %d)" % (e, k) if r == "tnode" else "(&%s.ch[%d])" % (e.lstrip("&") if e.startswith("(&") else e, k)
    return e


def ref_code(n, use_down, use_up, rewriting, ind="    "):
    """the reference walk of the documented contract, partially evaluated for this shape (mirrors
    ref_rewrite_node / ref_visit_node of c42_common.rs)"""
    i = n.i
    L = []
    mk = "rmk[%d]" % i if rewriting else "0"
    L.append("%slet mut t%d: u8 = 0;" % (ind, i))
    if use_down:
        L.append("%srlog.push(0, %d, %s);" % (ind, i, mk))
        if rewriting:
            L.append("%sif down[%d].tr { rmk[%d] |= DOWN_MARK; rtr = true; }" % (ind, i, i))
        L.append("%st%d = down[%d].tnr;" % (ind, i, i))
    L.append("%slet mut c%d: u8 = if t%d == 0 {" % (ind, i, i))
    L.append("%s    'k%d: {" % (ind, i))
    L.append("%s        #[allow(unused_mut, unused_assignments)] let mut last: u8 = 0;" % ind)
    for c in n.kids:
        L += ref_code(c, use_down, use_up, rewriting, ind + "        ")
        L.append("%s        last = c%d;" % (ind, c.i))
        L.append("%s        if last == 2 { break 'k%d last; }" % (ind, i))
    L.append("%s        last" % ind)
    L.append("%s    }" % ind)
    L.append("%s} else if t%d == 1 { 0 } else { 2 };" % (ind, i))
    if use_up:
        L.append("%sif c%d == 0 {" % (ind, i))
        L.append("%s    rlog.push(1, %d, %s);" % (ind, i, mk))
        if rewriting:
            L.append("%s    if up[%d].tr { rmk[%d] |= UP_MARK; rtr = true; }" % (ind, i, i))
        L.append("%s    c%d = up[%d].tnr;" % (ind, i, i))
        L.append("%s}" % ind)
    return L


def body(r, m, t):
    root, nodes = number(t)
    n = len(nodes)
    L = ["    let t = %s;" % tree_literal(r, root)]
    rewriting = m in ("rewrite", "transform_down", "transform_up", "transform_down_up")
    use_down = m != "transform_up"
    use_up = m in ("visit", "rewrite", "transform_up", "transform_down_up")
    if m == "exists":
        L.append("    let mut n_calls = 0usize;")
        L.append("    let r = ok!(t.exists(|x| { n_calls += 1; Ok(down[%s::id_of(x).0 as usize].tr) }));" % r)
        L.append("    let mut expect = false; let mut first = %d;" % n)
        for i in range(n):
            L.append("    if !expect && down[%d].tr { expect = true; first = %d; }" % (i, i))
        L.append('    assert!(r == expect, "exists() differs from the contract");')
        L.append('    assert!(n_calls == if expect { first + 1 } else { %d }, "exists() inspected the wrong number of nodes");' % n)
        L.append("    std::mem::forget(t);")
        return L
    # the real walk
    if m == "visit":
        L.append("    let mut v = %s::Vis { down, up, log: Log::new() };" % r)
        L.append("    let r = ok!(t.visit(&mut v));")
        L.append("    let log = v.log;")
    elif m == "apply":
        L.append("    let mut log = Log::new();")
        L.append("    let r = ok!(t.apply(|x| { let (id, mk) = %s::id_of(x); log.push(0, id, mk); Ok(tnr_of(down[id as usize].tnr)) }));" % r)
    elif m == "rewrite":
        L.append("    let mut rw = %s::Rw { down, up, log: Log::new() };" % r)
        L.append("    let r = ok!(t.rewrite(&mut rw));")
        L.append("    let log = rw.log;")
    elif m == "transform_down_up":
        L.append("    let lg = std::cell::RefCell::new(Log::new());")
        L.append("    let r = ok!(t.transform_down_up(|x| %s::step(x, down, 0, &mut lg.borrow_mut()), |x| %s::step(x, up, 1, &mut lg.borrow_mut())));" % (r, r))
        L.append("    let log = *lg.borrow();")
    elif m == "transform_down":
        L.append("    let mut log = Log::new();")
        L.append("    let r = ok!(t.transform_down(|x| %s::step(x, down, 0, &mut log)));" % r)
    elif m == "transform_up":
        L.append("    let mut log = Log::new();")
        L.append("    let r = ok!(t.transform_up(|x| %s::step(x, up, 1, &mut log)));" % r)
    # the reference walk
    L.append("    let mut rlog = Log::new();")
    if rewriting:
        L.append("    #[allow(unused_mut)] let mut rmk = [0u8; MAXN]; #[allow(unused_mut, unused_assignments)] let mut rtr = false;")
    L += ref_code(root, use_down, use_up, rewriting)
    L.append('    assert!(log.same(&rlog), "visit sequence differs from the contract");')
    if not rewriting:
        L.append('    assert!(tnr_code(r) == c0, "final recursion state differs from the contract");')
        L.append("    std::mem::forget(t);")
        return L
    L.append('    assert!(tnr_code(r.tnr) == c0, "final recursion state differs from the contract");')
    L.append('    assert!(r.transformed == rtr, "changed-flag differs from the contract");')
    for nd in nodes:
        e = access(r, "(&r.data)", nd.path)
        if r == "tnode":
            L.append('    assert!(t_id(%s) == (%d, rmk[%d]) && t_nkids(%s) == %d, "rewritten tree differs from the contract");' % (e, nd.i, nd.i, e, len(nd.kids)))
        else:
            L.append('    assert!(%s.id == %d && %s.mk == rmk[%d] && %s.ch.len() == %d, "rewritten tree differs from the contract");' % (e, nd.i, e, nd.i, e, len(nd.kids)))
    L.append("    std::mem::forget(r);")
    return L


def gen_lib(shapes):
    common = open(os.path.join(HERE, "c42_common.rs")).read().split("// ---------------------------------------------------------------- generic drivers")[0]
    common += open(os.path.join(HERE, "c42_drivers.rs")).read()
    common += open(os.path.join(HERE, "c42_containers.rs")).read()
    hs = []
    names = []
    native_arms = []
    for si, t in enumerate(shapes):
        for r in REPRS:
            for m in METHODS:
                name = "c42_%s_%s_s%d" % (r, m, si)
                names.append((name, r, m, si))
                hs.append("#[allow(unused_variables, unused_labels)]\npub fn body_%s(down: &[Dec; MAXN], up: &[Dec; MAXN]) {\n%s\n}\n" % (name, "\n".join(body(r, m, t))))
                hs.append("""#[cfg(kani)]
#[kani::proof]
#[kani::unwind(%d)]
fn %s() {
    let down: [Dec; MAXN] = [kani::any(), kani::any(), kani::any(), kani::any(), kani::any()];
    let up: [Dec; MAXN] = [kani::any(), kani::any(), kani::any(), kani::any(), kani::any()];
    body_%s(&down, &up);
    kani::cover!(true, "end of harness reachable");
}
""" % (unwind_for(t), name, name))
                native_arms.append('        "%s" => body_%s(down, up)' % (name, name))
    for cname in CONTAINERS:
        name = "c42_%s" % cname
        names.append((name, "container", cname, -1))
        hs.append("""#[cfg(kani)]
#[kani::proof]
#[kani::unwind(5)]
fn %s() {
    let down: [Dec; MAXN] = [kani::any(), kani::any(), kani::any(), kani::any(), kani::any()];
    body_%s(&down);
    kani::cover!(true, "end of harness reachable");
}
""" % (name, cname))
        native_arms.append('        "%s" => body_%s(down)' % (name, cname))
    native = """
/// native replay entry: run one harness body on a concrete decision vector
pub fn native_run(name: &str, down: &[Dec; MAXN], up: &[Dec; MAXN]) {
    match name {
%s
        _ => panic!("unknown harness"),
    }
}
pub fn native_nodes(name: &str) -> usize {
    match name {
%s
        _ => 0,
    }
}
""" % (",\n".join(native_arms) + ",", ",\n".join('        "%s" => %d' % (n[0], 4 if n[3] < 0 else shape_arrays(shapes[n[3]])[0]) for n in names) + ",")
    return common + "\n" + "\n".join(hs) + native, names


NATIVE_MAIN = r'''
use c42k::*;
fn main() {
    std::panic::set_hook(Box::new(|_| {}));
    let name = std::env::args().nth(1).unwrap();
    let n = native_nodes(&name);
    // every decision vector over the n nodes: per node (down.tnr, down.tr, up.tnr, up.tr) = 36 values
    let total: u64 = 36u64.pow(n as u32);
    let mut k: u64 = 0;
    while k < total {
        let mut down = [Dec { tnr: 0, tr: false }; MAXN];
        let mut up = [Dec { tnr: 0, tr: false }; MAXN];
        let mut x = k;
        for i in 0..n {
            let d = (x % 36) as u8;
            x /= 36;
            down[i] = Dec { tnr: d % 3, tr: (d / 3) % 2 == 1 };
            up[i] = Dec { tnr: (d / 6) % 3, tr: (d / 18) % 2 == 1 };
        }
        let nm = name.clone();
        let r = std::panic::catch_unwind(move || native_run(&nm, &down, &up));
        if let Err(e) = r {
            let msg = e.downcast_ref::<&str>().map(|s| s.to_string()).or_else(|| e.downcast_ref::<String>().cloned()).unwrap_or_default();
            let f = |d: &[Dec; MAXN]| (0..n).map(|i| format!("{}{}", ["C", "J", "S"][d[i].tnr as usize], if d[i].tr { "+" } else { "" })).collect::<Vec<_>>().join(",");
            println!("FAIL down=[{}] up=[{}] :: {}", f(&down), f(&up), msg);
            return;
        }
        k += 1;
    }
    println!("PASS {} vectors", total);
}
'''


def native_replay(name):
    """search the (finite) decision space natively for a failing vector of this harness"""
    env = dict(os.environ)
    env.update({"CARGO_NET_OFFLINE": "true", "CARGO_TARGET_DIR": os.path.join(WORK, "target-native")})
    os.makedirs(os.path.join(CRATE, "src", "bin"), exist_ok=True)
    with open(os.path.join(CRATE, "src", "bin", "native.rs"), "w") as f:
        f.write(NATIVE_MAIN)
    p = subprocess.run(["cargo", "build", "--offline", "--release", "--bin", "native"], cwd=CRATE, env=env, capture_output=True, text=True)
    if p.returncode != 0:
        return None, "native build failed: " + p.stderr[-500:]
    b = os.path.join(WORK, "target-native", "release", "native")
    try:
        r = subprocess.run([b, name], capture_output=True, text=True, timeout=1800)
    except subprocess.TimeoutExpired:
        return None, "native replay timed out"
    out = r.stdout.strip()
    if out.startswith("FAIL"):
        return out, None
    return None, "native search found no failing vector (%s)" % out


def harness_nodes(h, shapes):
    if "_cont_" in h:
        return 4
    return shape_arrays(shapes[int(h.rsplit("_s", 1)[1])])[0]


def harness_shape(h, shapes):
    if "_cont_" in h:
        return "sibling container"
    return shape_str(shapes[int(h.rsplit("_s", 1)[1])])


def select(names, quick):
    """Only harnesses whose measured CBMC time (k/c42_calibration.json, measured on this image) leaves a wide
    margin to the tier's cap are run: a harness that cannot finish inside the cap is not claimed (and is
    listed in the evidence as outside the bound) rather than reported as a timeout on every run."""
    cal = json.load(open(os.path.join(HERE, "c42_calibration.json")))
    cap = 150 if quick else 1200
    sel, dropped = [], []
    for (name, r, m, si) in names:
        c = cal.get(name)
        if c and c.get("status") == "SUCCESSFUL" and c.get("cbmc_s") is not None and c["cbmc_s"] <= cap:
            sel.append(name)
        else:
            dropped.append(name)
    return sel, dropped


def main():
    t0 = time.time()
    tier = C.tier()
    quick = tier == "quick"
    shapes = []
    for n in range(1, 6):
        shapes += trees(n)
    lib, names = gen_lib(shapes)
    K.write_crate(CRATE, "c42k", lib,
                  'datafusion-common = { path = "%s/datafusion/common", default-features = false }' % C.REPO)
    # remove a stale native bin so that cargo kani does not try to build it
    nb = os.path.join(CRATE, "src", "bin", "native.rs")
    if os.path.exists(nb):
        os.remove(nb)
    sel, dropped = select(names, quick)
    seed = C.seed()
    # VERIF_SEED rotates the order (and so the worker assignment), never the set
    if sel:
        k = seed % len(sel)
        sel = sel[k:] + sel[:k]
    workers = 14
    okb, err = K.prepare_targets(CRATE, WORK, workers, os.path.join(WORK, "kani-build.log"), "c42_cont_transform_tables")
    if not okb:
        C.write_evidence(PID, "model_checking", {"evaluations": 0, "distinct_nontrivial": 0, "explanation": "harness crate does not compile under Kani against the current tree: " + err[-600:]},
                         [], time.time() - t0, 0)
        C.finish(PID, [], [], ["harness crate does not compile under Kani against /repo: " + err[-800:]])
    timeout = 900 if quick else 3000
    cal = json.load(open(os.path.join(HERE, "c42_calibration.json")))
    weights = {h: float(cal.get(h, {}).get("cbmc_s") or 1.0) for h in sel}
    results, logs = K.run_all(CRATE, WORK, sel, workers, timeout, 8 if quick else 14, ["--output-format", "regular"], weights)
    ok = [h for h in sel if results[h]["status"] == "SUCCESSFUL" and results[h]["covers_unsatisfied"] == 0]
    failed = [h for h in sel if results[h]["status"] == "FAILED"]
    undec = [h for h in sel if h not in ok and h not in failed]
    violations, known_hits, inconclusive, msgs = [], [], [], []
    os.makedirs(os.path.join(C.BUILD, "replay"), exist_ok=True)
    replayed = 0
    for h in failed[:6]:
        vec, err = native_replay(h)
        replayed += 1
        if vec:
            sig = "C42:%s" % "_".join(h.split("_")[1:-1])
            rp = os.path.join(C.BUILD, "replay", "C42_%s.json" % h)
            json.dump({"property": PID, "harness": h, "shape": harness_shape(h, shapes), "failed_checks": results[h]["failed_checks"],
                       "native_counterexample": vec, "how": "%s %s" % (os.path.join(WORK, "target-native", "release", "native"), h)}, open(rp, "w"), indent=1)
            kf = C.match_known(PID, sig)
            if kf:
                known_hits.append(kf.get("what", sig))
            else:
                violations.append((sig, rp))
                msgs.append("counterexample (%s, shape %s): %s" % (h, harness_shape(h, shapes), vec))
        else:
            inconclusive.append("Kani reports %s FAILED (%s) but %s" % (h, results[h]["failed_checks"][:2], err))
    if len(failed) > 6:
        msgs.append("%d further failing harnesses not replayed: %s" % (len(failed) - 6, failed[6:12]))
    # a harness that did not finish inside the cap (machine load) is not claimed in this run: it is listed in the
    # evidence and on stdout; the run as a whole is inconclusive only when more than a fifth of them did not finish
    for h in undec:
        line = "harness %s undecided: %s" % (h, {k: v for k, v in results[h].items() if k != "time_s"})
        if len(undec) * 5 > len(sel):
            inconclusive.append(line)
        else:
            msgs.append("NOT-DECIDED (not claimed in this run) " + line)
    times = [results[h]["time_s"] for h in sel if results[h]["time_s"]]
    cov = {
        "states": len(ok),
        "transitions": sum((36 ** harness_nodes(h, shapes)) for h in ok),
        "traces_validated_against_impl": replayed,
        "samples": [{"harness": h, "shape": harness_shape(h, shapes), "status": results[h]["status"], "cbmc_s": results[h]["time_s"]}
                    for h in (sel[:5] + failed[:4])] or [{"note": "no harness selected"}],
        "explanation": "`states` = Kani harnesses (node representation x method x tree shape, plus sibling-container unit harnesses) verified SUCCESSFUL with reachable "
                       "end-of-harness cover; `transitions` = number of closure-decision vectors covered symbolically by those harnesses (36 per node)",
        "harnesses_total": len(sel), "harnesses_successful": len(ok), "harnesses_failed": len(failed), "harnesses_undecided": len(undec),
        "harnesses_not_run_because_calibration_exceeds_the_cap": len(dropped),
        "not_run_examples": dropped[:12],
        "undecided_harnesses": undec,
        "tree_shapes_generated": len(shapes),
        "functions_encoded": ["TreeNode::{visit,apply,exists,rewrite,transform_down,transform_up,transform_down_up} (default methods)",
                              "TreeNodeRecursion::{visit_children,visit_sibling,visit_parent}", "Transformed::{transform_children,transform_sibling,transform_parent,map_data,update_data}",
                              "impl TreeNode for T: ConcreteTreeNode", "impl TreeNode for Arc<T: DynTreeNode>",
                              "TreeNodeContainer for Box / Vec / Option / (C0,C1) / (C0,C1,C2), TreeNodeRefContainer for (&C0,&C1) / (&C0,&C1,&C2) / Vec<&C>",
                              "TreeNodeIterator::{apply_until_stop,map_until_stop_and_collect}"],
        "bounds": "tree shapes with <= 3 children per node whose harness finishes under the tier cap (see k/c42_calibration.json: all shapes up to 3 nodes for the Vec/Arc representations, "
                  "smaller ones for the tuple/Box representation); per-harness unwind = max(children, depth) + 1 with unwinding assertions; closure decisions fully symbolic",
        "outside": ["per-variant child enumeration of Expr / LogicalPlan / PhysicalExpr (their own apply_children / map_children)", "trees deeper or wider than the bound",
                    "closures that return Err"],
        "solver_time_s": round(sum(times), 1) if times else 0,
        "queries": len(sel),
        "engine": "Kani 0.68 / CBMC 6.11 / CaDiCaL",
        "logs": logs[:3],
    }
    C.write_evidence(PID, "model_checking", cov,
                     ["the reference walk emitted per shape by k/c42.py (ref_code, a partial evaluation of ref_rewrite_node / ref_visit_node in k/c42_common.rs) is the oracle",
                      "closures never return Err", "Kani's model of Vec/Box/Arc (std compiled by Kani) is faithful"],
                     time.time() - t0, len(violations))
    C.finish(PID, violations, known_hits, inconclusive, msgs)


if __name__ == "__main__":
    main()
