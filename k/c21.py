#!/usr/bin/env python3
"""C21 (disk-usage accounting half) — engine K: Kani on the real `impl Write for FileSpillWriter` and
`impl Drop for RefCountedTempFile`, extracted verbatim from datafusion/execution/src/disk_manager.rs
on every run and compiled against shims for the types they touch (the file handle becomes a writer
whose `write_all` fails non-deterministically: fault sequences are solver variables).

Decided by CBMC for ALL write lengths (0..=16 bytes per write), ALL limits, ALL failure flags, over a
history of writes on two files followed by dropping both:
  (I1) after every write:  global used_disk_space == sum of the per-file usage counters
  (I2) a write that returns Ok leaves used_disk_space <= limit (limit unchanged during the write)
  (I3) a failed write leaves every observable counter unchanged
  (I4) after the last handle of every file is dropped used_disk_space == 0
The IPC encode/decode round trip of spill files (arrow-ipc, codecs, file I/O) is outside.
"""
import json
import os
import re
import subprocess
import sys
import time

sys.path.insert(0, os.path.dirname(os.path.dirname(os.path.abspath(__file__))))
from vlib import common as C
from vlib.rsextract import extract_item, AnchorMoved
from k import kani_run as K

PID = "C21"
SRC = "datafusion/execution/src/disk_manager.rs"
WORK = os.path.join(C.BUILD, "C21")
CRATE = os.path.join(WORK, "crate")

SHIMS = r'''
#![allow(dead_code, unused_imports, unused_variables)]
extern crate alloc;
use std::io::Write;
use std::sync::atomic::{AtomicU64, AtomicUsize, Ordering};
use std::sync::Arc;

// ---- shims for the types the extracted impls touch (contracts only) ----
pub enum DataFusionError {
    IoError(std::io::Error),
}
impl From<DataFusionError> for std::io::Error {
    fn from(e: DataFusionError) -> Self {
        match e {
            DataFusionError::IoError(e) => e,
        }
    }
}
/// formatting is not the subject: the message text is irrelevant to the accounting
pub fn human_readable_size(_size: usize) -> String {
    String::new()
}
/// the three fields of DiskManager that the extracted impls use
pub struct DiskManager {
    pub used_disk_space: Arc<AtomicU64>,
    pub max_temp_directory_size: AtomicU64,
    pub active_files_count: AtomicUsize,
}
impl DiskManager {
    pub fn max_temp_directory_size(&self) -> u64 {
        self.max_temp_directory_size.load(Ordering::Relaxed)
    }
}
/// std::fs::File stand-in: `write_all` may fail (the fault flag is a solver variable)
pub struct ShimFile {
    pub fail: bool,
}
impl ShimFile {
    pub fn write_all(&mut self, _buf: &[u8]) -> std::io::Result<()> {
        if self.fail {
            Err(std::io::Error::from(std::io::ErrorKind::Other))
        } else {
            Ok(())
        }
    }
    pub fn flush(&mut self) -> std::io::Result<()> {
        Ok(())
    }
}
pub struct NamedTempFile;
pub struct TempDir;
pub struct FileSpillWriter {
    pub file: ShimFile,
    pub disk_manager: Arc<DiskManager>,
    pub current_file_disk_usage: Arc<AtomicU64>,
}
pub struct RefCountedTempFile {
    pub parent_temp_dir: Arc<TempDir>,
    pub tempfile: Arc<NamedTempFile>,
    pub current_file_disk_usage: Arc<AtomicU64>,
    pub disk_manager: Arc<DiskManager>,
}
// ---- verbatim items from /repo ----
'''

HARNESS = r'''
// ---- harnesses ----
fn mk(limit: u64) -> Arc<DiskManager> {
    Arc::new(DiskManager { used_disk_space: Arc::new(AtomicU64::new(0)), max_temp_directory_size: AtomicU64::new(limit), active_files_count: AtomicUsize::new(2) })
}
fn file(dm: &Arc<DiskManager>) -> RefCountedTempFile {
    RefCountedTempFile { parent_temp_dir: Arc::new(TempDir), tempfile: Arc::new(NamedTempFile), current_file_disk_usage: Arc::new(AtomicU64::new(0)), disk_manager: Arc::clone(dm) }
}
fn writer(f: &RefCountedTempFile, fail: bool) -> FileSpillWriter {
    FileSpillWriter { file: ShimFile { fail }, disk_manager: Arc::clone(&f.disk_manager), current_file_disk_usage: Arc::clone(&f.current_file_disk_usage) }
}
fn used(dm: &Arc<DiskManager>) -> u64 {
    dm.used_disk_space.load(Ordering::Relaxed)
}
fn usage(f: &RefCountedTempFile) -> u64 {
    f.current_file_disk_usage.load(Ordering::Relaxed)
}

/// one write with symbolic length / limit / fault from a symbolic (but consistent) pre-state
pub fn body_one_write(limit: u64, pre1: u64, pre2: u64, len: usize, fail: bool) -> (bool, u64, u64, u64) {
    let dm = mk(limit);
    let (f1, f2) = (file(&dm), file(&dm));
    f1.current_file_disk_usage.store(pre1, Ordering::Relaxed);
    f2.current_file_disk_usage.store(pre2, Ordering::Relaxed);
    dm.used_disk_space.store(pre1 + pre2, Ordering::Relaxed);
    let buf = [0u8; 16];
    let mut w = writer(&f1, fail);
    let r = w.write(&buf[..len]);
    let ok = r.is_ok();
    std::mem::forget(r);
    let out = (ok, used(&dm), usage(&f1), usage(&f2));
    std::mem::forget(w);
    std::mem::forget(f1);
    std::mem::forget(f2);
    out
}

pub fn check_one_write(limit: u64, pre1: u64, pre2: u64, len: usize, fail: bool) {
    let (ok, u, a, b) = body_one_write(limit, pre1, pre2, len, fail);
    // I1: the global counter is the sum of the per-file counters
    assert!(u == a + b, "used_disk_space differs from the sum of the per-file usage");
    if ok {
        assert!(a == pre1 + len as u64 && b == pre2, "a successful write must add its length to its file only");
        assert!(len == 0 || u <= limit, "a successful write exceeded the limit");
    } else {
        assert!(a == pre1 && b == pre2 && u == pre1 + pre2, "a failed write changed the accounting");
    }
}

/// two writes on one file, one on another, then both files dropped (with a live clone of one of them)
pub fn check_history(limit: u64, l1: usize, l2: usize, l3: usize, f1fail: bool, f2fail: bool, f3fail: bool) {
    let dm = mk(limit);
    let (f1, f2) = (file(&dm), file(&dm));
    let buf = [0u8; 16];
    let mut w1 = writer(&f1, f1fail);
    let r1 = w1.write(&buf[..l1]);
    std::mem::forget(r1);
    assert!(used(&dm) == usage(&f1) + usage(&f2), "used_disk_space differs from the sum of the per-file usage");
    let mut w2 = writer(&f2, f2fail);
    let r2 = w2.write(&buf[..l2]);
    std::mem::forget(r2);
    assert!(used(&dm) == usage(&f1) + usage(&f2), "used_disk_space differs from the sum of the per-file usage");
    w1.file.fail = f3fail;
    let r3 = w1.write(&buf[..l3]);
    std::mem::forget(r3);
    assert!(used(&dm) == usage(&f1) + usage(&f2), "used_disk_space differs from the sum of the per-file usage");
    // a second handle to f1 (RefCountedTempFile is Clone: same tempfile Arc, same usage counter)
    let f1b = RefCountedTempFile { parent_temp_dir: Arc::clone(&f1.parent_temp_dir), tempfile: Arc::clone(&f1.tempfile), current_file_disk_usage: Arc::clone(&f1.current_file_disk_usage), disk_manager: Arc::clone(&f1.disk_manager) };
    let u2 = usage(&f2);
    drop(f1);
    // not the last handle: nothing is released yet
    assert!(used(&dm) == usage(&f1b) + u2, "dropping a non-last handle must not release usage");
    drop(f1b);
    assert!(used(&dm) == u2, "dropping the last handle must release exactly that file's usage");
    drop(f2);
    assert!(used(&dm) == 0, "usage does not return to zero after every file is released");
    std::mem::forget(w1);
    std::mem::forget(w2);
}

#[cfg(kani)]
fn no_format(_args: std::fmt::Arguments<'_>) -> String {
    String::new()
}

#[cfg(kani)]
#[kani::proof]
#[kani::unwind(2)]
#[kani::stub(alloc::fmt::format, no_format)]
fn c21_one_write() {
    let limit: u64 = kani::any();
    let pre1: u64 = kani::any();
    let pre2: u64 = kani::any();
    kani::assume(pre1 <= (1 << 40) && pre2 <= (1 << 40));
    kani::assume(pre1 + pre2 <= limit);
    let len: usize = kani::any();
    kani::assume(len <= 16);
    let fail: bool = kani::any();
    check_one_write(limit, pre1, pre2, len, fail);
    kani::cover!(true, "end of harness reachable");
}

#[cfg(kani)]
#[kani::proof]
#[kani::unwind(2)]
#[kani::stub(alloc::fmt::format, no_format)]
fn c21_history() {
    let limit: u64 = kani::any();
    let (l1, l2, l3): (usize, usize, usize) = (kani::any(), kani::any(), kani::any());
    kani::assume(l1 <= 16 && l2 <= 16 && l3 <= 16);
    check_history(limit, l1, l2, l3, kani::any(), kani::any(), kani::any());
    kani::cover!(true, "end of harness reachable");
}
'''

NATIVE = r'''
use c21k::*;
fn main() {
    std::panic::set_hook(Box::new(|_| {}));
    let which = std::env::args().nth(1).unwrap();
    let limits: [u64; 6] = [0, 1, 15, 16, 17, 40];
    let lens: [usize; 5] = [0, 1, 8, 15, 16];
    if which == "c21_one_write" {
        for limit in limits { for pre1 in [0u64, 1, 16] { for pre2 in [0u64, 3] { if pre1 + pre2 > limit { continue; }
            for len in lens { for fail in [false, true] {
                let r = std::panic::catch_unwind(|| check_one_write(limit, pre1, pre2, len, fail));
                if let Err(e) = r {
                    let msg = e.downcast_ref::<&str>().map(|s| s.to_string()).or_else(|| e.downcast_ref::<String>().cloned()).unwrap_or_default();
                    println!("FAIL limit={limit} file1_usage={pre1} file2_usage={pre2} write_len={len} write_all_fails={fail} :: {msg}");
                    return;
                }
            } }
        } } }
    } else {
        for limit in limits { for l1 in lens { for l2 in lens { for l3 in lens { for m in 0..8u8 {
            let (a, b, c) = (m & 1 == 1, m & 2 == 2, m & 4 == 4);
            let r = std::panic::catch_unwind(|| check_history(limit, l1, l2, l3, a, b, c));
            if let Err(e) = r {
                let msg = e.downcast_ref::<&str>().map(|s| s.to_string()).or_else(|| e.downcast_ref::<String>().cloned()).unwrap_or_default();
                println!("FAIL limit={limit} lens=({l1},{l2},{l3}) write_all_fails=({a},{b},{c}) :: {msg}");
                return;
            }
        } } } } }
    }
    println!("PASS");
}
'''


def build_crate():
    src = open(os.path.join(C.REPO, SRC)).read()
    w = extract_item(src, r"impl\s+std::io::Write\s+for\s+FileSpillWriter\b")
    d = extract_item(src, r"impl\s+Drop\s+for\s+RefCountedTempFile\b")
    lib = SHIMS + w + "\n" + d + "\n" + HARNESS
    K.write_crate(CRATE, "c21k", lib, "", lock_from=None)
    return w, d


def native_replay(name):
    env = dict(os.environ)
    env.update({"CARGO_NET_OFFLINE": "true", "CARGO_TARGET_DIR": os.path.join(WORK, "target-native")})
    os.makedirs(os.path.join(CRATE, "src", "bin"), exist_ok=True)
    with open(os.path.join(CRATE, "src", "bin", "native.rs"), "w") as f:
        f.write(NATIVE)
    outs = []
    for prof in ([], ["--release"]):
        p = subprocess.run(["cargo", "build", "--offline", "--bin", "native"] + prof, cwd=CRATE, env=env, capture_output=True, text=True)
        if p.returncode != 0:
            return None, "native build failed: " + p.stderr[-400:]
        b = os.path.join(WORK, "target-native", "release" if prof else "debug", "native")
        r = subprocess.run([b, name], capture_output=True, text=True, timeout=600)
        outs.append(r.stdout.strip())
    os.remove(os.path.join(CRATE, "src", "bin", "native.rs"))
    fails = [o for o in outs if o.startswith("FAIL")]
    if fails:
        return fails[0] + (" (dev and release)" if len(fails) == 2 else " (one profile only)"), None
    return None, "native search over boundary values found no failing case (%s)" % outs


def main():
    t0 = time.time()
    quick = C.tier() == "quick"
    try:
        w, d = build_crate()
    except AnchorMoved as e:
        C.write_evidence(PID, "model_checking", {"evaluations": 0, "distinct_nontrivial": 0, "explanation": "anchor moved: %s" % e}, [], time.time() - t0, 0)
        C.finish(PID, [], [], ["anchor moved: %s" % e])
    nb = os.path.join(CRATE, "src", "bin", "native.rs")
    if os.path.exists(nb):
        os.remove(nb)
    hs = ["c21_one_write", "c21_history"]
    results, logs = K.run_all(CRATE, WORK, hs, 2, 900 if quick else 2400, 10, ["-Z", "stubbing"])
    ok = [h for h in hs if results[h]["status"] == "SUCCESSFUL" and results[h]["covers_unsatisfied"] == 0]
    failed = [h for h in hs if results[h]["status"] == "FAILED"]
    undec = [h for h in hs if h not in ok and h not in failed]
    violations, known_hits, inconclusive, msgs = [], [], [], []
    os.makedirs(os.path.join(C.BUILD, "replay"), exist_ok=True)
    replayed = 0
    for h in failed:
        vec, err = native_replay(h)
        replayed += 1
        checks = "; ".join(results[h]["failed_checks"][:3])
        if vec:
            m = re.search(r":: (.*?)( \(dev|$)", vec)
            sig = "C21:%s" % (m.group(1).strip() if m else h)
            rp = os.path.join(C.BUILD, "replay", "C21_%s.json" % h)
            json.dump({"property": PID, "harness": h, "failed_checks": results[h]["failed_checks"], "native_counterexample": vec}, open(rp, "w"), indent=1)
            kf = C.match_known(PID, sig)
            if kf:
                known_hits.append(kf.get("what", sig))
            else:
                violations.append((sig, rp))
                msgs.append("counterexample (%s): %s" % (h, vec))
        else:
            inconclusive.append("Kani reports %s FAILED (%s) but %s" % (h, checks, err))
    for h in undec:
        inconclusive.append("harness %s undecided: %s" % (h, results[h]))
    times = [results[h]["time_s"] for h in hs if results[h]["time_s"]]
    cov = {
        "states": len(ok),
        "transitions": len(ok),
        "traces_validated_against_impl": replayed,
        "samples": [{"harness": h, "status": results[h]["status"], "cbmc_s": results[h]["time_s"], "failed_checks": results[h]["failed_checks"][:3]} for h in hs],
        "explanation": "`states` = Kani harnesses verified SUCCESSFUL: c21_one_write (one write from an arbitrary consistent pre-state: inductive step of the accounting invariant) and "
                       "c21_history (3 writes on 2 files, clone, drops); all lengths 0..=16, all u64 limits, all fault flags symbolic",
        "functions_encoded": ["<FileSpillWriter as std::io::Write>::write (verbatim from /repo)", "<RefCountedTempFile as Drop>::drop (verbatim from /repo)"],
        "stubs": ["std::fs::File -> ShimFile whose write_all fails iff a symbolic flag is set", "DiskManager reduced to used_disk_space / max_temp_directory_size / active_files_count",
                  "human_readable_size -> empty string", "DataFusionError reduced to IoError"],
        "bounds": "write length <= 16 bytes, pre-existing usage <= 2^40 per file (sums cannot wrap), unwind 2 (no loops in the code under test)",
        "outside": ["IPC encode/decode round trip of spill files", "real file sizes", "concurrent writers (relaxed atomics are executed sequentially)", "limit changes between the fetch_add and the check"],
        "solver_time_s": round(sum(times), 1) if times else 0, "queries": len(hs), "engine": "Kani 0.68 / CBMC 6.11 / CaDiCaL", "logs": logs,
    }
    C.write_evidence(PID, "model_checking", cov, ["single-threaded execution of the relaxed atomics", "shims listed under `stubs`"], time.time() - t0, len(violations))
    C.finish(PID, violations, known_hits, inconclusive, msgs)


if __name__ == "__main__":
    main()
