// ---------------------------------------------------------------- sibling containers (unit level)
// TreeNodeContainer / TreeNodeRefContainer implementations for tuples, Vec, Option and Box: the
// elements of a container are siblings, so `Continue` and `Jump` go on with the next element and
// `Stop` ends the walk; `transformed` is the OR over the visited elements; the returned state is
// the one of the last visited element.  One harness per container shape, decisions symbolic.

#[derive(Clone, Debug, PartialEq, Default)]
pub struct L {
    pub id: u8,
    pub mk: u8,
}

impl<'a> TreeNodeContainer<'a, Self> for L {
    fn apply_elements<F: FnMut(&'a Self) -> Result<TreeNodeRecursion>>(&'a self, mut f: F) -> Result<TreeNodeRecursion> {
        f(self)
    }
    fn map_elements<F: FnMut(Self) -> Result<Transformed<Self>>>(self, mut f: F) -> Result<Transformed<Self>> {
        f(self)
    }
}

fn leaf(i: u8) -> L {
    L { id: i, mk: 0 }
}

fn map_leaf(x: L, d: &[Dec; MAXN], log: &mut Log) -> Result<Transformed<L>> {
    log.push(0, x.id, x.mk);
    let dec = d[x.id as usize];
    Ok(if dec.tr { Transformed::new(L { id: x.id, mk: x.mk | DOWN_MARK }, true, tnr_of(dec.tnr)) } else { Transformed::new(x, false, tnr_of(dec.tnr)) })
}

fn apply_leaf(x: &L, d: &[Dec; MAXN], log: &mut Log) -> Result<TreeNodeRecursion> {
    log.push(0, x.id, x.mk);
    Ok(tnr_of(d[x.id as usize].tnr))
}

/// reference: walk over n sibling leaves
pub struct SibRef {
    pub log: Log,
    pub mk: [u8; MAXN],
    pub tr: bool,
    pub tnr: u8,
}
pub fn sib_ref(n: usize, d: &[Dec; MAXN], rewriting: bool) -> SibRef {
    let mut r = SibRef { log: Log::new(), mk: [0; MAXN], tr: false, tnr: 0 };
    let mut stop = false;
    macro_rules! one {
        ($i:expr) => {
            if $i < n && !stop {
                r.log.push(0, $i as u8, 0);
                if rewriting && d[$i].tr {
                    r.mk[$i] = DOWN_MARK;
                    r.tr = true;
                }
                r.tnr = d[$i].tnr;
                if r.tnr == 2 {
                    stop = true;
                }
            }
        };
    }
    one!(0);
    one!(1);
    one!(2);
    one!(3);
    r
}

macro_rules! check_map {
    ($res:expr, $log:expr, $exp:expr) => {{
        let r = ok!($res);
        assert!($log.same(&$exp.log), "sibling visit sequence differs from the contract");
        assert!(r.transformed == $exp.tr, "changed-flag differs from the contract");
        assert!(tnr_code(r.tnr) == $exp.tnr, "final recursion state differs from the contract");
        r
    }};
}

pub fn body_cont_map_tuple2(d: &[Dec; MAXN]) {
    let mut log = Log::new();
    let e = sib_ref(2, d, true);
    let r = check_map!((leaf(0), leaf(1)).map_elements(|x| map_leaf(x, d, &mut log)), log, e);
    assert!(r.data.0.mk == e.mk[0] && r.data.1.mk == e.mk[1] && r.data.0.id == 0 && r.data.1.id == 1, "mapped container differs from the contract");
}
pub fn body_cont_map_tuple3(d: &[Dec; MAXN]) {
    let mut log = Log::new();
    let e = sib_ref(3, d, true);
    let r = check_map!((leaf(0), leaf(1), leaf(2)).map_elements(|x| map_leaf(x, d, &mut log)), log, e);
    assert!(r.data.0.mk == e.mk[0] && r.data.1.mk == e.mk[1] && r.data.2.mk == e.mk[2], "mapped container differs from the contract");
    assert!(r.data.0.id == 0 && r.data.1.id == 1 && r.data.2.id == 2, "mapped container differs from the contract");
}
pub fn body_cont_map_vec3(d: &[Dec; MAXN]) {
    let mut log = Log::new();
    let e = sib_ref(3, d, true);
    let r = check_map!(vec![leaf(0), leaf(1), leaf(2)].map_elements(|x| map_leaf(x, d, &mut log)), log, e);
    assert!(r.data.len() == 3, "mapped container differs from the contract");
    assert!(r.data[0].mk == e.mk[0] && r.data[1].mk == e.mk[1] && r.data[2].mk == e.mk[2], "mapped container differs from the contract");
    std::mem::forget(r);
}
pub fn body_cont_map_box_vec(d: &[Dec; MAXN]) {
    // the (Box<C>, Vec<C>) shape used by Expr variants with one boxed operand and a list
    let mut log = Log::new();
    let e = sib_ref(3, d, true);
    let r = check_map!((Box::new(leaf(0)), vec![leaf(1), leaf(2)]).map_elements(|x| map_leaf(x, d, &mut log)), log, e);
    assert!(r.data.0.mk == e.mk[0] && r.data.1.len() == 2 && r.data.1[0].mk == e.mk[1] && r.data.1[1].mk == e.mk[2], "mapped container differs from the contract");
    std::mem::forget(r);
}
pub fn body_cont_map_option(d: &[Dec; MAXN]) {
    let mut log = Log::new();
    let e = sib_ref(2, d, true);
    let r = check_map!((Some(leaf(0)), Some(Box::new(leaf(1)))).map_elements(|x| map_leaf(x, d, &mut log)), log, e);
    assert!(r.data.0.as_ref().map(|l| l.mk) == Some(e.mk[0]) && r.data.1.as_ref().map(|l| l.mk) == Some(e.mk[1]), "mapped container differs from the contract");
    std::mem::forget(r);
}
pub fn body_cont_apply_tuple2(d: &[Dec; MAXN]) {
    let mut log = Log::new();
    let e = sib_ref(2, d, false);
    let c = (leaf(0), leaf(1));
    let r = ok!(c.apply_elements(|x| apply_leaf(x, d, &mut log)));
    assert!(log.same(&e.log) && tnr_code(r) == e.tnr, "sibling walk differs from the contract");
}
pub fn body_cont_apply_tuple3(d: &[Dec; MAXN]) {
    let mut log = Log::new();
    let e = sib_ref(3, d, false);
    let c = (leaf(0), leaf(1), leaf(2));
    let r = ok!(c.apply_elements(|x| apply_leaf(x, d, &mut log)));
    assert!(log.same(&e.log) && tnr_code(r) == e.tnr, "sibling walk differs from the contract");
}
pub fn body_cont_apply_vec3(d: &[Dec; MAXN]) {
    let mut log = Log::new();
    let e = sib_ref(3, d, false);
    let c = vec![leaf(0), leaf(1), leaf(2)];
    let r = ok!(c.apply_elements(|x| apply_leaf(x, d, &mut log)));
    assert!(log.same(&e.log) && tnr_code(r) == e.tnr, "sibling walk differs from the contract");
    std::mem::forget(c);
}
pub fn body_cont_apply_ref_tuple2(d: &[Dec; MAXN]) {
    let mut log = Log::new();
    let e = sib_ref(2, d, false);
    let (a, b) = (leaf(0), leaf(1));
    let r = ok!((&a, &b).apply_ref_elements(|x| apply_leaf(x, d, &mut log)));
    assert!(log.same(&e.log) && tnr_code(r) == e.tnr, "sibling walk differs from the contract");
}
pub fn body_cont_apply_ref_tuple3(d: &[Dec; MAXN]) {
    let mut log = Log::new();
    let e = sib_ref(3, d, false);
    let (a, b, c) = (leaf(0), leaf(1), leaf(2));
    let r = ok!((&a, &b, &c).apply_ref_elements(|x| apply_leaf(x, d, &mut log)));
    assert!(log.same(&e.log) && tnr_code(r) == e.tnr, "sibling walk differs from the contract");
}
pub fn body_cont_apply_ref_vec3(d: &[Dec; MAXN]) {
    let mut log = Log::new();
    let e = sib_ref(3, d, false);
    let (a, b, c) = (leaf(0), leaf(1), leaf(2));
    let v = vec![&a, &b, &c];
    let r = ok!(v.apply_ref_elements(|x| apply_leaf(x, d, &mut log)));
    assert!(log.same(&e.log) && tnr_code(r) == e.tnr, "sibling walk differs from the contract");
    std::mem::forget(v);
}

/// Transformed::{transform_children, transform_sibling, transform_parent} and
/// TreeNodeRecursion::{visit_children, visit_sibling, visit_parent}: the 3x3 decision tables
pub fn body_cont_transform_tables(d: &[Dec; MAXN]) {
    let first = Transformed::new(leaf(0), d[0].tr, tnr_of(d[0].tnr));
    let mut called = false;
    let r = ok!(first.transform_sibling(|x| {
        called = true;
        Ok(Transformed::new(x, d[1].tr, tnr_of(d[1].tnr)))
    }));
    assert!(called == (d[0].tnr != 2), "transform_sibling: next sibling must run unless Stop");
    assert!(r.transformed == (d[0].tr || (called && d[1].tr)), "transform_sibling: changed-flag");
    assert!(tnr_code(r.tnr) == if called { d[1].tnr } else { 2 }, "transform_sibling: state");

    let first = Transformed::new(leaf(0), d[0].tr, tnr_of(d[0].tnr));
    let mut called = false;
    let r = ok!(first.transform_children(|x| {
        called = true;
        Ok(Transformed::new(x, d[1].tr, tnr_of(d[1].tnr)))
    }));
    assert!(called == (d[0].tnr == 0), "transform_children: children run only on Continue");
    assert!(r.transformed == (d[0].tr || (called && d[1].tr)), "transform_children: changed-flag");
    assert!(tnr_code(r.tnr) == if called { d[1].tnr } else if d[0].tnr == 1 { 0 } else { 2 }, "transform_children: Jump is consumed, Stop kept");

    let first = Transformed::new(leaf(0), d[0].tr, tnr_of(d[0].tnr));
    let mut called = false;
    let r = ok!(first.transform_parent(|x| {
        called = true;
        Ok(Transformed::new(x, d[1].tr, tnr_of(d[1].tnr)))
    }));
    assert!(called == (d[0].tnr == 0), "transform_parent: parent runs only on Continue");
    assert!(r.transformed == (d[0].tr || (called && d[1].tr)), "transform_parent: changed-flag");
    assert!(tnr_code(r.tnr) == if called { d[1].tnr } else { d[0].tnr }, "transform_parent: Jump and Stop pass through");

    let mut called = false;
    let r = ok!(tnr_of(d[0].tnr).visit_sibling(|| {
        called = true;
        Ok(tnr_of(d[1].tnr))
    }));
    assert!(called == (d[0].tnr != 2) && tnr_code(r) == if called { d[1].tnr } else { 2 }, "visit_sibling table");
    let mut called = false;
    let r = ok!(tnr_of(d[0].tnr).visit_children(|| {
        called = true;
        Ok(tnr_of(d[1].tnr))
    }));
    assert!(called == (d[0].tnr == 0) && tnr_code(r) == if called { d[1].tnr } else if d[0].tnr == 1 { 0 } else { 2 }, "visit_children table");
    let mut called = false;
    let r = ok!(tnr_of(d[0].tnr).visit_parent(|| {
        called = true;
        Ok(tnr_of(d[1].tnr))
    }));
    assert!(called == (d[0].tnr == 0) && tnr_code(r) == if called { d[1].tnr } else { d[0].tnr }, "visit_parent table");
}
