#!/usr/bin/env python3
"""Measure which C42 harnesses finish under a cap; writes k/c42_calibration.json (committed).
The check only runs harnesses whose measured time leaves a wide margin to the tier's cap."""
import json, os, sys, time
sys.path.insert(0, os.path.dirname(os.path.dirname(os.path.abspath(__file__))))
from k import c42
from k import kani_run as K

cap = int(sys.argv[1]) if len(sys.argv) > 1 else 600
maxnodes = int(sys.argv[2]) if len(sys.argv) > 2 else 3
shapes = []
for n in range(1, 6):
    shapes += c42.trees(n)
lib, names = c42.gen_lib(shapes)
K.write_crate(c42.CRATE, "c42k", lib, 'datafusion-common = { path = "/repo/datafusion/common", default-features = false }')
nn = [c42.shape_arrays(t)[0] for t in shapes]
sel = [n[0] for n in names if nn[n[3]] <= maxnodes]
extra = [n[0] for n in names if nn[n[3]] == maxnodes + 1 and n[1] == "vnode" and n[2] in ("transform_up", "apply", "visit")]
if len(sys.argv) > 3:
    sel = sel + extra
out_path = os.path.join(os.path.dirname(os.path.abspath(__file__)), "c42_calibration.json")
old = json.load(open(out_path)) if os.path.exists(out_path) else {}
sel = sel + [n[0] for n in names if n[1] == "container"]
# re-measure everything that is not known to be SUCCESSFUL
sel = [h for h in sel if not (h in old and old[h]["status"] == "SUCCESSFUL")]
ok, err = K.prepare_targets(c42.CRATE, c42.WORK, 14, os.path.join(c42.WORK, "kani-build.log"), "c42_cont_transform_tables")
assert ok, err
print(len(sel), "harnesses to calibrate")
# one harness per cargo-kani invocation group so that a timeout only loses that harness: groups of 1, 14 at a time
import concurrent.futures as cf
def one(args):
    gi, h = args
    r, secs, _ = K.run_group(c42.CRATE, os.path.join(c42.WORK, "target-%d" % (gi % 14)), [h], cap + 120, 8, ["--output-format", "regular"], os.path.join(c42.WORK, "cal-%s.log" % h))
    return h, r[h], secs
# a target dir must not be shared by concurrent cargo invocations: run 14 lanes, each sequential
lanes = [[] for _ in range(14)]
for i, h in enumerate(sel):
    lanes[i % 14].append((i % 14, h))
def lane(items):
    res = []
    for it in items:
        res.append(one(it))
        h, r, secs = res[-1]
        print(h, r["status"], r["time_s"], round(secs), flush=True)
    return res
with cf.ThreadPoolExecutor(max_workers=14) as pool:
    for res in pool.map(lane, lanes):
        for h, r, secs in res:
            old[h] = {"status": r["status"], "cbmc_s": r["time_s"], "wall_s": round(secs, 1), "unwind": 5 if "_cont_" in h else c42.unwind_for(shapes[int(h.rsplit("_s", 1)[1])])}
        json.dump(old, open(out_path, "w"), indent=1, sort_keys=True)
print("done")
