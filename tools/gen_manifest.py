#!/usr/bin/env python3
"""Generates /verif/MANIFEST.json from the tables below and validates it against the schema.
Run after adding/removing a check:  python3 tools/gen_manifest.py"""
import json
import os
import sys

HERE = os.path.dirname(os.path.dirname(os.path.abspath(__file__)))

CHECKS = {
    "C11": dict(
        engine="M (MIR -> SMT)",
        category="proof",
        technique="symbolic execution of rustc MIR of the extracted functions, SMT (z3 5.1 / cvc5 / z3 4.8: Int with explicit mod-2^k wraps + QF_BV), counterexamples replayed natively",
        text="Every MIR assert and the equation `partition index == hash mod count` are discharged by SMT solvers for ALL 2^64 hashes x "
             "all counts 1..2^64-1 (no value bound; one arbitrary loop iteration, rows are independent). The encoding is regenerated "
             "from /repo's source on every run (item extraction -> nightly MIR -> SMT-LIB).",
        note="Trusted: nightly MIR == semantics of the stable build; the MIR->SMT translator (validated each run on ~300 vectors against the "
             "natively compiled extract); std models for is_power_of_two/From/slice iteration/Vec::push; the solvers. Assumes indices.len()==count "
             "(checked textually in new_hash_partitioner). Outside: create_hashes (C12), partition_iter's use of the indices (C10).",
        design="5/C11",
    ),
    "C42": dict(
        engine="K (Kani / CBMC)",
        category="model_checking",
        technique="bounded model checking of the real Rust code with Kani 0.68 / CBMC 6.11 (SAT), symbolic closure decisions, per-shape reference walk as oracle; failing harnesses replayed natively",
        text="Each harness compiles the real datafusion_common::tree_node code and lets CBMC decide, for ALL per-node closure decisions (Continue/Jump/Stop x transformed-or-not, f_down and f_up), "
             "that visit order, skip/stop handling, rewritten tree and changed-flag equal the documented contract. Bounded: small tree shapes, three node representations, all seven traversal methods, "
             "plus unit harnesses for every sibling-container implementation and the TreeNodeRecursion / Transformed decision tables.",
        note="Oracle = reference walk emitted per shape by k/c42.py. Bounds: shapes whose harness finishes under the tier cap (k/c42_calibration.json), unwinding assertions on. Assumes closures never return Err. "
             "Outside: Expr/LogicalPlan/PhysicalExpr per-variant child enumeration, larger trees.",
        design="5/C42",
    ),
    "C17": dict(
        engine="K (Kani / CBMC)",
        category="model_checking",
        technique="bounded model checking with Kani 0.68 / CBMC 6.11 (SAT) of the memory-pool source extracted verbatim from /repo on every run; one inductive step from an arbitrary API-reachable pre-state; failing harnesses replayed natively (dev + release)",
        text="For each pool kind (greedy, fair-spill, peak-recording over each) and each reservation operation (try_grow, grow, shrink, try_shrink, resize, try_resize, free, split, take, new_empty, drop) CBMC decides, for ALL limits, "
             "reservation sizes, arguments (<= 2^40) and can_spill flags, that reserved() equals the sum of the live reservations before and after, that a failed fallible operation changes nothing, that a granted try_grow stays within the "
             "limit / the fair share, that peak >= current and peak-since-reset is the maximum, and that dropping every reservation returns the pool to zero. The pre-state is arbitrary, so the step is the inductive step for histories of any length.",
        note="SEQUENTIAL half of the property only: thread interleavings are outside (Kani executes atomics sequentially). Outside too: TrackConsumersPool (hashbrown map), SharedRegistration::drop/unregister (Kani mis-models that drop glue, see evidence `cuts`), "
             "sizes above 2^40. Shims: parking_lot::Mutex, fmt::format, human_readable_size, log::debug!, DataFusionError. Quick tier runs the harnesses calibrated <= 150 s (k/c17_calibration.json), thorough all 44.",
        design="8.5/C17",
    ),
    "C21": dict(
        engine="K (Kani / CBMC)",
        category="model_checking",
        technique="bounded model checking with Kani 0.68 / CBMC 6.11 (SAT) of `impl Write for FileSpillWriter` and `impl Drop for RefCountedTempFile` extracted verbatim from /repo on every run; the file handle is a shim whose write_all fails iff a solver-chosen flag is set; counterexamples replayed natively (dev + release)",
        text="Disk-usage accounting half of the property: for ALL write lengths (0..=16), ALL u64 limits, ALL injected write_all failures, (a) one write from an arbitrary consistent pre-state and (b) a history of three writes on two files, a cloned handle and the drops: "
             "used_disk_space always equals the sum of the per-file usage, a failed or rejected write changes nothing, an admitted write stays within the limit, and usage returns to zero when the last handle of every file is dropped.",
        note="Outside: the IPC encode/decode round trip of spill files (arrow-ipc, codecs, real I/O), concurrent writers, limit changes between the add and the check. This check found the leak repaired by fix: a6cfae9.",
        design="8.5/C21",
    ),
    "C03": dict(
        engine="T (translation validation, SMT)",
        category="translation_validation",
        technique="plan-level translation validation: real analyzer + optimizer run on each SQL program; both plans encoded as bounded symbolic relations (QF_BV); z3 decides multiset equality on every database within the bound; models executed in the real engine",
        text="For every SQL program the analyzed plan and the plan produced by the REAL optimizer (full pipeline, each rule alone, pipeline minus one rule) are proved to return the same multiset of rows, with the same output schema, "
             "on EVERY database with at most N rows per table (all cell values and NULL flags symbolic). A sat model becomes concrete MemTables and both plans are executed by the real engine (without logical optimization) before it is reported.",
        note="Bound: N = 2 rows per table in both tiers (the thorough tier uses five times the generated programs and tries single rules on every second program; 3 rows per table did not finish within 80 minutes), Int32 columns, the SQL grammar of t/src/c03.rs. Trusted: the relational semantics of t/src/plan.rs (every model is replayed), z3. Outside: window/unnest/recursive/GROUPING SETS/subquery expressions, order-dependent LIMIT, larger tables.",
        design="5/C03",
    ),
    "C38": dict(
        engine="T (translation validation, SMT)",
        category="translation_validation",
        technique="plan-level translation validation of plan_to_sql: plan vs re-planned generated SQL, bounded symbolic relations, z3, replay in the real engine",
        text="For every program, the analyzed plan and the optimized plan are unparsed by the REAL plan_to_sql, the text is re-planned by the real planner, and plan and re-planned plan are proved to return the same rows on every database within the bound.",
        note="Same trusted base as C03; N = 2 (quick) / 3 (thorough) rows per table. Eight classes of unparser defects on optimized plans are recorded in known_findings.json (keyed by the trigger in the unparsed plan).",
        design="5/C38",
    ),
    "C41": dict(
        engine="T (translation validation, SMT)",
        category="translation_validation",
        technique="plan-level translation validation of parameter binding: with_param_values / PREPARE+EXECUTE plan vs literal plan, bounded symbolic relations, z3, replay in the real engine",
        text="For each statement template and parameter vector the plan with the REAL parameter binding (LogicalPlan::with_param_values, and PREPARE/EXECUTE through SessionContext) is proved to return the same rows as the statement with the values written as literals, on every database within the bound.",
        note="Same trusted base as C03, N = 2 (quick) / 3 (thorough) rows per table; 13 templates, BIGINT parameters from the boundary set incl. NULL.",
        design="5/C41",
    ),
    "C48": dict(
        engine="T (translation validation, SMT)",
        category="translation_validation",
        technique="plan-level translation validation of the DataFrame builder: DataFrame plan vs SQL plan (and both optimized), bounded symbolic relations, z3, replay in the real engine",
        text="For each DataFrame operation chain the plan built by the REAL DataFrame methods is proved to return the same rows as the plan of the SQL statement with the same meaning, before and after optimization, on every database within the bound.",
        note="Same trusted base as C03, N = 2 (quick) / 3 (thorough) rows per table; 32 hand-paired chains covering 19 builder methods.",
        design="5/C48",
    ),
    "C37": dict(
        engine="T (translation validation, SMT)",
        category="translation_validation",
        technique="plan-level translation validation of the Substrait round trip: optimized plan vs from_substrait_plan(to_substrait_plan(plan)), bounded symbolic relations, z3, replay in the real engine",
        text="For every program the optimized plan and its REAL Substrait round trip are proved to return the same rows with the same output types on every database within the bound.",
        note="Same trusted base as C03; N = 2 (quick) / 3 (thorough) rows per table.",
        design="5/C37",
    ),
    "C04": dict(
        engine="T (translation validation, SMT)",
        category="translation_validation",
        technique="translation validation: real ExprSimplifier / PhysicalExprSimplifier run on each program; before/after encoded to QF_BV SMT over a symbolic row; z3 5.1 + z3 4.8 decide; models replayed in the real evaluator",
        text="For every program of a bounded expression grammar the REAL simplifier output is proved equivalent to its input for ALL rows (every column value of the full bit width is a solver variable, NULLs included), "
             "under the property's precondition (original evaluates without error). A sat model is replayed through create_physical_expr(..).evaluate before it is reported; the SMT semantics is cross-validated "
             "against the real evaluator on a 24k-point boundary grid on every run.",
        note="Trusted: SMT operator semantics beyond the validated grid points, z3. Bounds: grammar depth <= 4, integer/boolean/decimal/temporal types, boundary literals. Outside: floats, strings, regex/LIKE, date functions. "
             "Recorded defects of the pinned tree are listed in known_findings.json (8 signatures), three further ones were repaired (fix: commits).",
        design="5/C04",
    ),
    "C47": dict(
        engine="T (translation validation, SMT)",
        category="translation_validation",
        technique="translation validation of the TypeCoercion rewrite: coerced comparison vs mirrored comparison vs exact mathematical comparison, QF_BV SMT over symbolic operands, replay in the real evaluator / i128 arithmetic",
        text="For every ordered pair of comparable types the REAL coercion rewrite of x <op> y is proved (a) equal to the mirrored y <op'> x, (b) equal to the comparison of the mathematical values for integers and decimals "
             "whenever it evaluates without error, (c) IN lists equal the OR of equalities - for ALL operand values.",
        note="Bounds: 13 (quick) / 19 (thorough) types x 8 operators, literal operands from type boundaries. Outside: floats, strings, dictionaries, equi-joins, Date64<->Timestamp casts (unsupported by the encoder, counted).",
        design="5/C47",
    ),
    "C44": dict(
        engine="T (translation validation, SMT)",
        category="translation_validation",
        technique="translation validation of the schema adapter's expression rewrite: specification (casts of same-named file columns, NULL for missing ones) vs the REAL DefaultPhysicalExprAdapter output, QF_BV SMT over a symbolic file row, models replayed with the real evaluator and the arrow cast kernel",
        text="For every file-schema variant and every expression over the table schema, the REAL adapter's rewritten expression is proved to yield, on EVERY file row, the value the table-schema expression has on the adapted row "
             "(same-named column cast to the table type, NULL for missing columns), whenever the adapted row exists (casts do not overflow); bare column references cover the projection itself, predicates cover filter rewriting.",
        note="Expression half of the property only. Outside: nested struct field evolution, the record-batch plumbing (schema_adapter.rs, Parquet reader coercions), non-integer column types.",
        design="8.5/C44",
    ),
    "C22": dict(
        engine="T (translation validation, SMT)",
        category="translation_validation",
        technique="translation validation of the pruning rewrite: predicate on a symbolic witness row vs statistics predicate on symbolic (possibly unknown) min/max/null_count/row_count, QF_BV SMT; models replayed through the real PruningPredicate::prune",
        text="For every predicate of the grammar the REAL PruningPredicateBuilder output P' and the REAL LiteralGuarantee::analyze output are proved sound for ALL containers: no valid statistics + witness row with P(row) TRUE and P'(stats) FALSE; "
             "no row with P(row) TRUE that violates a derived guarantee.",
        note="Container = statistics + one witness row (sufficient for soundness: a skipped container with a matching row is a witness). Outside: LIKE/strings, bloom-filter `contained`, file_pruner plumbing. One corner finding recorded.",
        design="5/C22",
    ),
    "C23": dict(
        engine="T (translation validation, SMT)",
        category="translation_validation",
        technique="real Interval / cp_solver code run on enumerated endpoint pairs; soundness over ALL values inside the intervals decided by z3 over mathematical integers (exact arithmetic); models re-checked with i128 arithmetic",
        text="For each pair of intervals (endpoints from the type boundaries, incl. unbounded) the interval the REAL code returns is proved to contain the exact result for ALL value pairs whose result is representable; "
             "comparisons contain the truth value; satisfy_greater / propagate_arithmetic / propagate_comparison / ExprIntervalGraph::update_ranges never remove a satisfying assignment.",
        note="Endpoints enumerated (boundary set), values symbolic. Integers only; floats/directed rounding and distributions are outside. Three division-related defects recorded, two defects repaired (fix: commits).",
        design="5/C23",
    ),
}

NOT_APPLICABLE = {
    "C01": "needs SQL parser + planner + async vectorized executor end to end; arrow kernels, tokio streams and ScalarValue (Kani 0.68 ICE) cannot be encoded; the logical half is covered by C03/C04/C47",
    "C02": "quantifies over executor configurations and thread schedules of real operators; no concurrency support in Kani/CBMC for Rust and no SMT semantics of physical operators",
    "C05": "join operators are async streams over arrow batches; even the pure index kernels on a 2-element UInt32Array exhaust 23 GB in CBMC (measured)",
    "C06": "aggregation streams are executor state machines over arrow + memory pool + spill I/O; no encodable unit",
    "C07": "Accumulator results are ScalarValue (Kani ICE); GroupsAccumulator helpers take arrow arrays (out of CBMC's reach, measured)",
    "C08": "sort/merge/TopK run on arrow row format, async streams and spill files; cursor comparison alone is not the property",
    "C09": "frame bounds are ScalarValue (Kani ICE), RANGE/GROUPS search uses arrow kernels, executors are async",
    "C10": "exchange operator = tokio tasks + channels + spill; its pure routing arithmetic is C11; schedules not explorable",
    "C12": "hashing walks arrow arrays of every layout; array construction alone is beyond CBMC here (measured); foldhash is multiply-heavy",
    "C13": "group-key stores are hashbrown tables + arrow builders/arrays; a model of arrow would verify the model, not DataFusion",
    "C15": "measured: a blocked-sender scenario on the verbatim distributor_channels.rs needs 185-600k SSA steps and >27 GB in CBMC; pre-emption inside a poll is outside Kani altogether",
    "C16": "same code shape as C15 plus spill-file I/O; does not fit given the C15 measurement",
    "C18": "whole queries under memory limits: executor, spill I/O, pools; nothing encodable beyond C17/C21",
    "C19": "task cancellation in the tokio runtime: runtime behaviour, not a function of symbolic inputs",
    "C20": "error propagation through spawned tasks and channels of real operators; needs the runtime",
    "C24": "Parquet decoding, page/row-group indexes, bloom filters: parquet crate I/O and encodings, far beyond bounded unrolling",
    "C25": "file writers/readers, object store, hive path escaping through url/percent-encoding string code",
    "C26": "AlignedBoundaryStream is an async state machine over object_store streams; FileGroupPartitioner works on PartitionedFile, which owns ScalarValues (Kani ICE)",
    "C27": "listing/pruning over object_store::Path, Url, percent-decoding and filter evaluation on partition batches: string and I/O code",
    "C29": "Statistics hold Precision<ScalarValue> (Kani ICE even on drop); exactness is a property of executing operators",
    "C30": "conformance of batches produced by real operators/functions; needs the executor",
    "C31": "dynamic filters are updated and read concurrently by executor tasks; schedules + executor",
    "C32": "several hundred scalar functions over arrow string/binary/dictionary arrays; loops grow with input, string and float heavy",
    "C33": "physical expression kernels are arrow compute kernels; what can be said symbolically about expression meaning is said in C04/C47",
    "C34": "the subject is ScalarValue itself, the one type Kani 0.68 cannot compile here (ICE); conversions go through arrow cast kernels",
    "C35": "round-trip equality of prost-encoded plans is a concrete structural comparison per plan; no input for a solver to quantify over; prost codecs are heap/loop code",
    "C36": "as C35, for physical plans",
    "C39": "DML on MemTable runs through the async executor and RwLock<Vec<RecordBatch>>; evaluation by arrow kernels",
    "C43": "~200 macro-generated string parse/format pairs; formatting is the subject so it cannot be stubbed, and std formatting loops time out (measured)",
    "C45": "FFI boundary (extern C vtables, abi_stable): Kani does not model foreign calls",
    "C46": "CSV persistence/formatting of result batches and file I/O; string code",
    "C49": "catalog state lives in DashMap/RwLock hash maps behind async SessionContext DDL handlers; string-keyed, runtime-bound",
    "C50": "liveness of streaming executors over unbounded inputs: not a safety property of a bounded unrolling, needs the runtime",
    "C51": "split_from_semicolon on a 3-character symbolic string did not finish in 900 s under Kani; output formatters are arrow/csv/json writers",
    "C52": "parsing goes through the sqlparser tokenizer on symbolic text; out of reach for the same reason as C51",
    "C53": "metrics are recorded by executing operators across partitions/tasks; needs the runtime",
}

# planned in DESIGN.md, probed, and found out of reach of the installed solvers / not encodable in the time available
PENDING = {
    "C14": "the join hash map is a hashbrown::HashTable plus a chain vector: measured with Kani 0.68 - three symbolic inserts through the public API did not finish in 900 s; the verbatim join_hash_map.rs "
           "against Vec-backed shims timed out at 1200 s / 8 GB with 4 build and 3 probe rows, and with 3 build / 2 probe rows over a 2-value hash domain the pagination loop was still unsolved after 12.5 min / 7 GB; "
           "the one-step variant (verbatim update_from_iter / get_matched_indices_with_limit_offset / traverse_chain over a fixed-capacity linear shim of the hash table, concrete build side, ONE page from a symbolic reachable offset) "
           "was built and measured: a 2-row build side with 3 probe rows needed 883 s of CBMC (253 k SSA steps, without memory-safety checks; with them it ran out of memory), and 120 such harnesses are needed for build sides up to 4 rows - "
           "out of reach, and it would verify the chain logic over a shim, not hashbrown",
    "C28": "the subject is data produced by executing physical operators (arrow executor, async streams) against the orderings / equivalence classes / partitionings they declare; there is no encodable unit short of a relational "
           "semantics for every ExecutionPlan plus the EquivalenceProperties closure (orderings over arbitrary PhysicalExprs incl. monotonic functions); engine T's plan encoder covers logical plans only and was not extended",
    "C40": "the caches are std HashMap (SipHash, RandomState) / DashMap keyed by object_store::Path with an LRU list of Arc<Mutex<node>> + Weak links (lru_queue.rs): hash maps and pointer-rich lists are beyond CBMC here "
           "(HashMap probes ran out of memory or time, see DESIGN 2); validity rules depend on object-store metadata and wall-clock TTLs behind async listing code",
}

ENGINES = [
    dict(name="M", path="m/", kind_free_text="rustc MIR -> symbolic executor -> SMT-LIB (Int with explicit wraps / QF_BV) -> z3, cvc5"),
    dict(name="K", path="k/", kind_free_text="Kani 0.68 (CBMC 6.11) harnesses over the real source: public API, file mount with shims, item extraction"),
    dict(name="T", path="t/", kind_free_text="translation validation: real rewriters run concretely on bounded programs; before/after encoded to SMT over symbolic rows/tables; z3 decides; models replayed through the real evaluator"),
]


def main():
    ids = [json.loads(l)["id"] for l in open(os.path.join(HERE, "properties.jsonl"))]
    checks = []
    for pid in ids:
        if pid not in CHECKS:
            continue
        c = CHECKS[pid]
        checks.append({
            "property_id": pid,
            "quick_cmd": "./check %s --tier quick" % pid,
            "thorough_cmd": "./check %s --tier thorough" % pid,
            "evidence_file": "/verif/evidence/%s.json" % pid,
            "replay_cmd_template": "./check %s --replay {path}" % pid,
            "engine": c["engine"],
            "level_claimed": {"category": c["category"], "text": c["text"], "design_ref": c["design"]},
            "level_note": c["note"],
            "technique": c["technique"],
        })
    na = []
    for pid in ids:
        if pid in CHECKS:
            continue
        reason = NOT_APPLICABLE.get(pid) or PENDING.get(pid)
        if not reason:
            print("no decision for", pid)
            sys.exit(1)
        na.append({"property_id": pid, "reason": reason})
    for e in ENGINES:
        e["serves_properties"] = [pid for pid in ids if pid in CHECKS and CHECKS[pid]["engine"].startswith(e["name"])]
    man = {
        "version": 1,
        "setup_cmd": "./setup.sh",
        "hooks": {
            "guard": "apache_datafusion_verif",
            "enable": "none needed: no source hooks are used; every engine reads /repo's working tree (item extraction, file mounts, path dependencies)",
            "baseline_off_cmd": "cd /repo && cargo nextest run --workspace --no-fail-fast --test-threads 8 --offline",
            "source_commits": [],
            "add_only": True,
        },
        "engines": ENGINES,
        "checks": checks,
        "not_applicable": na,
        "notes": "Technique family: solver-based checking of the real code. Exit codes: 0 held, 1 VIOLATION (replayed natively), 2 inconclusive (never reported as success). See DESIGN.md.",
    }
    with open(os.path.join(HERE, "MANIFEST.json"), "w") as f:
        json.dump(man, f, indent=1)
        f.write("\n")
    try:
        import jsonschema
        jsonschema.validate(man, json.load(open("/root/.vp/MANIFEST.schema.json")))
        print("MANIFEST.json valid: %d checks, %d not_applicable" % (len(checks), len(na)))
    except ImportError:
        print("MANIFEST.json written (jsonschema not available for validation)")


if __name__ == "__main__":
    main()
