#!/bin/bash
# run_thorough.sh [ids...]: run the thorough tier of the given checks (default: all) on the current tree; the committed (quick)
# evidence is saved first and restored afterwards, the thorough evidence is kept under build/evidence_thorough/.
cd /verif
mkdir -p build/evidence_quick build/evidence_thorough
cp evidence/*.json build/evidence_quick/
IDS=${@:-C21 C23 C41 C48 C37 C44 C22 C38 C11 C47 C04 C03 C17 C42}
for p in $IDS; do
  s=$(date +%s)
  ./check $p --tier thorough > build/thorough_$p.out 2>&1; rc=$?
  cp evidence/$p.json build/evidence_thorough/$p.json
  echo "$p thorough exit=$rc $(( $(date +%s)-s ))s known=$(grep -c '^KNOWN' build/thorough_$p.out) violations=$(grep -c '^VIOLATION' build/thorough_$p.out) inconclusive=$(grep -c '^INCONCLUSIVE' build/thorough_$p.out)"
done
cp build/evidence_quick/*.json evidence/
