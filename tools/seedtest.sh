#!/bin/bash
# seedtest.sh <seed-dir-name> <property-id> [tier]: apply a seeded patch to /repo, run the check, undo the patch.
# The evidence file of the property is saved and restored: committed evidence must come from the unchanged tree.
S=/verif/seeded/$1; P=$2; T=${3:-quick}
EV=/verif/evidence/$P.json
[ -f "$EV" ] && cp "$EV" "/verif/build/evidence_backup_$P.json"
cd /repo && git apply "$S/patch.diff" || { echo "patch does not apply"; exit 3; }
cd /verif && ./check $P --tier $T > /verif/build/seedtest_$1_$P.log 2>&1; rc=$?
git -C /repo checkout -- .
[ -f "/verif/build/evidence_backup_$P.json" ] && mv "/verif/build/evidence_backup_$P.json" "$EV"
echo "SEEDTEST $1 check=$P exit=$rc $(grep -c '^VIOLATION' /verif/build/seedtest_$1_$P.log) violation-lines"
grep -E "^(VIOLATION|counterexample|INCONCLUSIVE)" /verif/build/seedtest_$1_$P.log | cut -c1-300 | head -4
