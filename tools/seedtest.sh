#!/bin/bash
# seedtest.sh <seed-dir-name> <property-id> [tier]: apply a seeded patch to /repo, run the check, undo the patch.
S=/verif/seeded/$1; P=$2; T=${3:-quick}
cd /repo && git apply "$S/patch.diff" || { echo "patch does not apply"; exit 3; }
cd /verif && ./check $P --tier $T > /verif/build/seedtest_$1_$P.log 2>&1; rc=$?
git -C /repo checkout -- .
echo "SEEDTEST $1 check=$P exit=$rc $(grep -c '^VIOLATION' /verif/build/seedtest_$1_$P.log) violation-lines"
grep -E "^(VIOLATION|counterexample|INCONCLUSIVE)" /verif/build/seedtest_$1_$P.log | cut -c1-300 | head -4
