#!/bin/bash
# Confirm a seeded mutation in a scratch worktree:
#   confirm_seed.sh <worktree> <out-dir-with-patch.diff+demo.rs> <demo-destination-relative-to-worktree> <cargo -p crate of demo> <test target name | lib filter> "<crates whose lib tests must still pass>" [append]
# With `append` the demo is appended to the (existing) destination file and run as `--lib <filter>`.
# Prints a RESULT line: demo_with_patch=FAIL|PASS demo_without_patch=PASS|FAIL existing_tests_with_patch=PASS|FAIL
set -u
WT=$1; OUT=$2; DEST=$3; CRATE=$4; TEST=$5; LIBS=$6; MODE=${7:-file}
export CARGO_NET_OFFLINE=true CARGO_TARGET_DIR=$WT/target
cd "$WT" || exit 2
git checkout -q -- . ; [ "$MODE" = file ] && rm -f "$DEST"
git apply --check "$OUT/patch.diff" || { echo "RESULT patch does not apply"; exit 2; }
place() {
  if [ "$MODE" = append ]; then cat "$OUT/demo.rs" >> "$DEST"; else mkdir -p "$(dirname "$DEST")"; cp "$OUT/demo.rs" "$DEST"; fi
}
runtest() {
  if [ "$MODE" = append ]; then cargo test --offline -j 6 -p "$CRATE" --lib "$TEST"; else cargo test --offline -j 6 -p "$CRATE" --test "$TEST"; fi
}
# without patch
place
runtest > "$OUT/confirm_without.log" 2>&1 && W=PASS || W=FAIL
git checkout -q -- . ; [ "$MODE" = file ] && rm -f "$DEST"
git apply "$OUT/patch.diff"
place
runtest > "$OUT/confirm_with.log" 2>&1 && P=PASS || P=FAIL
# existing tests with the patch only (demo removed)
if [ "$MODE" = append ]; then git checkout -q -- . ; git apply "$OUT/patch.diff"; else rm -f "$DEST"; fi
E=PASS
for c in $LIBS; do
  cargo test --offline -j 6 -p "$c" --lib > "$OUT/confirm_existing_$c.log" 2>&1 || E=FAIL
done
git checkout -q -- . ; [ "$MODE" = file ] && rm -f "$DEST"
echo "RESULT demo_with_patch=$P demo_without_patch=$W existing_tests_with_patch=$E"
