//! C03 — logical optimization preserves query results and output schema (plan-level translation
//! validation).  SQL -> analyzed plan (real planner + analyzer) -> real Optimizer (full pipeline, each
//! rule alone, pipeline minus one rule); z3 decides that the analyzed and the optimized plan return
//! the same multiset of rows on EVERY database with at most N rows per table (all cell values and
//! NULL flags symbolic).

use crate::gen::Rng;
use crate::pq::{default_tables, plans_equivalent, World};
use crate::smt::Duo;
use crate::tvq::Outcome;
use datafusion::logical_expr::LogicalPlan;
use datafusion::optimizer::optimizer::Optimizer;
use datafusion::optimizer::{OptimizerContext, OptimizerRule};
use serde_json::{json, Value};
use std::collections::{BTreeMap, HashSet};
use std::sync::Arc;

pub const JOINS: [&str; 4] = ["INNER JOIN", "LEFT JOIN", "RIGHT JOIN", "FULL JOIN"];

fn preds_one(t: &str, cols: &[&str], rng: &mut Rng) -> String {
    let c = format!("{t}.{}", rng.pick(cols));
    let k = *rng.pick(&[0, 1, 2, 5, -1]);
    match rng.below(9) {
        0 => format!("{c} = {k}"),
        1 => format!("{c} > {k}"),
        2 => format!("{c} <= {k}"),
        3 => format!("{c} IS NULL"),
        4 => format!("{c} IS NOT NULL"),
        5 => format!("{c} <> {k}"),
        6 => format!("{c} IN ({k}, {})", k + 1),
        7 => format!("{c} BETWEEN {k} AND {}", k + 2),
        _ => format!("{c} + 1 > {k}"),
    }
}

/// SQL programs: a curated list of rule-targeting shapes plus seeded random compositions
pub fn programs(thorough: bool, seed: u64) -> Vec<(String, String)> {
    programs_n(seed, if thorough { 300 } else { 160 })
}

/// the curated programs plus `nr` seeded random join programs
pub fn programs_n(seed: u64, nr: usize) -> Vec<(String, String)> {
    let mut out: Vec<(String, String)> = vec![];
    let mut add = |fam: &str, s: String| out.push((fam.to_string(), s));
    // --- single table
    for p in ["a > 1", "a = 1 AND b = 2", "a > 1 OR b IS NULL", "NOT (a > 1)", "a = a", "1 = 0", "1 = 1", "a IS NULL AND a = 1", "a + 1 > b", "a BETWEEN 1 AND 3",
              "a IN (1, 2) AND a IN (2, 3)", "CASE WHEN a > 1 THEN b ELSE a END > 0", "a > 1 AND a > 2", "a = 1 OR a = 2 OR a = 3"] {
        add("filter", format!("SELECT a, b FROM t1 WHERE {p}"));
        add("filter-project", format!("SELECT a + 1 AS x, b FROM t1 WHERE {p}"));
        add("filter-nested", format!("SELECT x FROM (SELECT a AS x, b AS y FROM t1 WHERE b > 0) s WHERE {}", p.replace('a', "x").replace('b', "y")));
    }
    add("distinct", "SELECT DISTINCT a FROM t1".into());
    add("distinct", "SELECT DISTINCT a, b FROM t1 WHERE a > 0".into());
    add("distinct", "SELECT DISTINCT a FROM (SELECT DISTINCT a, b FROM t1) s".into());
    add("limit", "SELECT a FROM t1 LIMIT 0".into());
    add("limit", "SELECT a FROM (SELECT a FROM t1 LIMIT 100) s WHERE a > 1".into());
    add("sort", "SELECT a, b FROM t1 WHERE a > 0 ORDER BY a, a, b".into());
    // --- unions
    for (l, r) in [("a > 1", "c > 1"), ("a IS NULL", "1 = 0"), ("1 = 1", "a = 2")] {
        add("union", format!("SELECT a FROM t1 WHERE {l} UNION ALL SELECT a FROM t2 WHERE {r}"));
        add("union", format!("SELECT a FROM t1 WHERE {l} UNION SELECT a FROM t2 WHERE {r}"));
        add("union", format!("SELECT x FROM (SELECT a AS x FROM t1 UNION ALL SELECT c AS x FROM t2) u WHERE x > 1 AND ({})", l.replace('a', "x")));
    }
    add("union", "SELECT a FROM t1 WHERE a = 1 UNION ALL SELECT a FROM t1 WHERE a = 2 UNION ALL SELECT a FROM t1 WHERE a = 3".into());
    add("union", "SELECT a FROM t1 WHERE a = 1 UNION SELECT a FROM t1 WHERE a = 2".into());
    // --- aggregates
    for q in [
        "SELECT a, count(*) FROM t1 GROUP BY a",
        "SELECT a, count(b), sum(b), min(b), max(b) FROM t1 GROUP BY a",
        "SELECT count(*), sum(a) FROM t1",
        "SELECT count(*) FROM t1 WHERE 1 = 0",
        "SELECT a, sum(b) FROM t1 WHERE a > 0 GROUP BY a HAVING sum(b) > 1",
        "SELECT a, sum(b) FROM t1 GROUP BY a HAVING a > 0",
        "SELECT a, b, count(*) FROM t1 GROUP BY a, b, a",
        "SELECT a, 1 AS k, count(*) FROM t1 GROUP BY a, 1",
        "SELECT x, count(*) FROM (SELECT a + 1 AS x FROM t1) s GROUP BY x",
        "SELECT a, max(b) FROM t1 GROUP BY a ORDER BY a",
        "SELECT count(*) FROM (SELECT DISTINCT a FROM t1) s",
        "SELECT a, count(*) FROM (SELECT a, b FROM t1 WHERE b IS NOT NULL) s GROUP BY a",
        "SELECT min(a), max(a) FROM t1 WHERE a IS NOT NULL",
        "SELECT a, count(*) FILTER (WHERE b > 1) FROM t1 GROUP BY a",
        "SELECT sum(a + 1), sum(a) FROM t1",
        "SELECT a, sum(b) + count(*) FROM t1 GROUP BY a",
    ] {
        add("aggregate", q.into());
    }
    // --- joins: every join type x predicate placements (the outer-join pushdown cases)
    let wheres = ["t1.b > 1", "t2.c > 1", "t2.c IS NULL", "t1.b IS NULL", "t1.b > 1 AND t2.c > 1", "t1.b > 1 OR t2.c > 1", "t1.b = t2.c", "t2.c IS NOT NULL", "t1.a = 1", "t2.a = 1",
                  "t1.b + t2.c > 0", "NOT (t2.c > 1)", "t2.c > 1 OR t2.c IS NULL", "CASE WHEN t2.c IS NULL THEN 0 ELSE t2.c END > 0",
                  // null-rejection analysis of outer-join elimination: AND / OR below NOT and the IS [NOT] TRUE/FALSE/UNKNOWN family, conjuncts on different sides
                  "NOT (t1.b > 1 AND t2.c > 1)", "(t1.b > 1 AND t2.c > 1) IS FALSE", "(t1.b > 1 AND t2.c > 1) IS NOT TRUE", "(t1.b > 1 OR t2.c > 1) IS NOT NULL",
                  "(t1.b > 1 AND t2.c > 1) IS NOT UNKNOWN", "(t1.b > 1 AND t2.c > 1) = false", "(t2.c > 1) IS NOT TRUE", "NOT (t1.b > 1 OR t2.c > 1)", "(t1.b > 1 OR t2.c > 1) IS FALSE",
                  "(t1.b > 1 AND t2.c > 1) IS UNKNOWN"];
    for jt in JOINS {
        for w in wheres {
            add("join-where", format!("SELECT t1.a, t1.b, t2.c FROM t1 {jt} t2 ON t1.a = t2.a WHERE {w}"));
        }
        for onx in ["t1.b > 1", "t2.c > 1", "t1.b < t2.c", "t2.c IS NULL", "t1.b = 1 AND t2.c = 2", "t1.b IS NOT DISTINCT FROM t2.c"] {
            add("join-on", format!("SELECT t1.a, t1.b, t2.c FROM t1 {jt} t2 ON t1.a = t2.a AND {onx}"));
        }
        add("join-using", format!("SELECT * FROM t1 {jt} t2 USING (a)"));
        add("join-agg", format!("SELECT t1.a, count(t2.c), sum(t1.b) FROM t1 {jt} t2 ON t1.a = t2.a GROUP BY t1.a"));
        add("join-distinct", format!("SELECT DISTINCT t1.a, t2.c FROM t1 {jt} t2 ON t1.a = t2.a WHERE t1.b > 0"));
        add("join-3", format!("SELECT t1.a, t2.c, t3.d FROM t1 {jt} t2 ON t1.a = t2.a INNER JOIN t3 ON t1.b = t3.b WHERE t3.d > 1"));
        add("join-3", format!("SELECT t1.a, t2.c, t3.d FROM t1 INNER JOIN t2 ON t1.a = t2.a {jt} t3 ON t1.b = t3.b WHERE t2.c > 1"));
        add("join-null-eq", format!("SELECT t1.a, t2.c FROM t1 {jt} t2 ON t1.a IS NOT DISTINCT FROM t2.a"));
        add("join-expr-key", format!("SELECT t1.a, t2.c FROM t1 {jt} t2 ON t1.a + 1 = t2.a"));
        add("join-subquery", format!("SELECT s.a, t2.c FROM (SELECT a, b FROM t1 WHERE b > 0) s {jt} t2 ON s.a = t2.a WHERE t2.c > 1 OR s.b = 2"));
    }
    for w in ["t1.a = t2.a", "t1.a = t2.a AND t2.c > 1", "t1.a = t2.a OR t1.b = t2.c", "t1.a > t2.a", "t1.a = t2.a AND t1.b = t2.c", "t1.a + 1 = t2.a + 1"] {
        add("cross-join", format!("SELECT t1.a, t2.c FROM t1, t2 WHERE {w}"));
        add("cross-join", format!("SELECT t1.a, t2.c, t3.d FROM t1, t2, t3 WHERE {w} AND t3.b = t1.b"));
    }
    add("cross-join", "SELECT t1.a, t2.c FROM t1 CROSS JOIN t2".into());
    add("cross-join", "SELECT t1.a FROM t1 CROSS JOIN t2 WHERE 1 = 0".into());
    add("empty", "SELECT t1.a, t2.c FROM t1 LEFT JOIN (SELECT a, c FROM t2 WHERE 1 = 0) t2 ON t1.a = t2.a".into());
    add("empty", "SELECT t1.a, t2.c FROM (SELECT a, b FROM t1 WHERE 1 = 0) t1 RIGHT JOIN t2 ON t1.a = t2.a".into());
    add("empty", "SELECT t1.a, t2.c FROM t1 FULL JOIN (SELECT a, c FROM t2 WHERE 1 = 0) t2 ON t1.a = t2.a".into());
    add("empty", "SELECT a FROM t1 UNION ALL SELECT a FROM t2 WHERE 1 = 0".into());
    add("empty", "SELECT count(*) FROM t1 INNER JOIN (SELECT a FROM t2 WHERE 1 = 0) x ON t1.a = x.a".into());
    // --- seeded random joins with random predicates
    let mut rng = Rng::new(seed ^ 0xC03);
    for _ in 0..nr {
        let jt = *rng.pick(&JOINS);
        let on_extra = if rng.chance(1, 3) { format!(" AND {}", if rng.chance(1, 2) { preds_one("t1", &["a", "b"], &mut rng) } else { preds_one("t2", &["a", "c"], &mut rng) }) } else { String::new() };
        let w1 = preds_one("t1", &["a", "b"], &mut rng);
        let w2 = preds_one("t2", &["a", "c"], &mut rng);
        let wh = match rng.below(6) {
            0 => format!(" WHERE {w1}"),
            1 => format!(" WHERE {w2}"),
            2 => format!(" WHERE {w1} AND {w2}"),
            3 => format!(" WHERE {w1} OR {w2}"),
            4 => format!(" WHERE NOT ({w2})"),
            _ => String::new(),
        };
        let sel = match rng.below(4) {
            0 => "t1.a, t2.c".to_string(),
            1 => "t1.a, t1.b, t2.a, t2.c".to_string(),
            2 => "t1.b + t2.c AS s, t1.a".to_string(),
            _ => "DISTINCT t1.a, t2.c".to_string(),
        };
        if rng.chance(1, 4) {
            add("random-join-agg", format!("SELECT t1.a, count(*), sum(t2.c) FROM t1 {jt} t2 ON t1.a = t2.a{on_extra}{wh} GROUP BY t1.a"));
        } else {
            add("random-join", format!("SELECT {sel} FROM t1 {jt} t2 ON t1.a = t2.a{on_extra}{wh}"));
        }
    }
    // development aid: VERIF_SQL_FILTER=<substring> keeps only the programs whose text contains it
    if let Ok(f) = std::env::var("VERIF_SQL_FILTER") {
        out.retain(|(_, s)| s.contains(&f));
    }
    out
}

pub struct T03 {
    pub programs: u64,
    pub plan_errors: u64,
    pub unchanged: u64,
    pub proved: u64,
    pub trivial: u64,
    pub unsupported: BTreeMap<String, u64>,
    pub inconclusive: Vec<String>,
    pub violations: Vec<Value>,
    pub samples: Vec<Value>,
    pub by_kind: BTreeMap<String, (u64, u64)>,
    pub distinct: HashSet<String>,
}

impl T03 {
    pub fn new() -> T03 {
        T03 { programs: 0, plan_errors: 0, unchanged: 0, proved: 0, trivial: 0, unsupported: BTreeMap::new(), inconclusive: vec![], violations: vec![], samples: vec![], by_kind: BTreeMap::new(), distinct: HashSet::new() }
    }
    pub fn merge(&mut self, t: T03) {
        self.programs += t.programs;
        self.plan_errors += t.plan_errors;
        self.unchanged += t.unchanged;
        self.proved += t.proved;
        self.trivial += t.trivial;
        for (k, v) in t.unsupported {
            *self.unsupported.entry(k).or_insert(0) += v;
        }
        self.inconclusive.extend(t.inconclusive);
        self.violations.extend(t.violations);
        self.samples.extend(t.samples);
        for (k, v) in t.by_kind {
            let e = self.by_kind.entry(k).or_insert((0, 0));
            e.0 += v.0;
            e.1 += v.1;
        }
        self.distinct.extend(t.distinct);
    }
    pub fn handle(&mut self, kind: &str, desc: &str, p1: &LogicalPlan, p2: &LogicalPlan, out: Outcome, sig: String) {
        self.programs += 1;
        let e = self.by_kind.entry(kind.to_string()).or_insert((0, 0));
        e.0 += 1;
        match out {
            Outcome::Equivalent => {
                self.proved += 1;
                e.1 += 1;
                self.distinct.insert(format!("{}=>{}", p1.display_indent(), p2.display_indent()));
                if self.samples.len() < 10 && self.proved % 37 == 1 {
                    self.samples.push(json!({"kind": kind, "program": desc, "original_plan": format!("{}", p1.display_indent()), "rewritten_plan": format!("{}", p2.display_indent()),
                        "verdict": "unsat: same multiset of rows on every database within the bound"}));
                }
            }
            Outcome::Trivial(_) => self.trivial += 1,
            Outcome::Unsupported(w) => {
                *self.unsupported.entry(w.chars().take(70).collect()).or_insert(0) += 1;
            }
            Outcome::Inconclusive(w) => {
                if self.inconclusive.len() < 30 {
                    self.inconclusive.push(format!("[{kind}] {desc} :: {}", w.chars().take(900).collect::<String>()));
                }
            }
            Outcome::Violation(mut v) => {
                v["kind"] = json!(kind);
                v["program"] = json!(desc);
                v["signature"] = json!(sig);
                self.violations.push(v);
            }
        }
    }
    pub fn to_json(&self, grid: Option<&crate::grid::GridReport>, solver: Value, wall: f64) -> Value {
        json!({
            "programs": self.programs, "changed": self.programs, "equivalent": self.proved, "trivial": self.trivial, "unchanged": self.unchanged, "plan_errors": self.plan_errors,
            "unsupported": self.unsupported, "inconclusive": self.inconclusive, "violations": self.violations, "samples": self.samples,
            "families": self.by_kind.iter().map(|(k, v)| (k.clone(), json!({"programs": v.0, "proved_equivalent": v.1}))).collect::<BTreeMap<_, _>>(),
            "distinct_rewrites": self.distinct.len(),
            "grid": match grid { Some(g) => json!({"templates": g.templates, "points": g.points, "mismatches": g.mismatches, "unsupported": g.unsupported}), None => json!({"templates": 0, "points": 0, "mismatches": [], "unsupported": []}) },
            "solver": solver, "wall_s": wall,
        })
    }
}

/// which optimizer rule(s) changed the plan: used as the signature of a violation
fn culprit(analyzed: &LogicalPlan, rules: &[Arc<dyn OptimizerRule + Send + Sync>]) -> String {
    let mut names = vec![];
    let opt = Optimizer::with_rules(rules.to_vec());
    let cfg = OptimizerContext::new().with_max_passes(1);
    let mut prev = format!("{}", analyzed.display_indent());
    let _ = opt.optimize(analyzed.clone(), &cfg, |p, r| {
        let now = format!("{}", p.display_indent());
        if now != prev {
            names.push(r.name().to_string());
            prev = now;
        }
    });
    names.dedup();
    names.join("+")
}

pub fn run(thorough: bool, seed: u64, threads: usize) -> Value {
    let t0 = std::time::Instant::now();
    let timeout_ms = if thorough { 120000 } else { 60000 };
    let nrows = 2;
    let mut duo0 = Duo::new(timeout_ms, false);
    let grid = crate::grid::validate(&mut duo0, false);
    drop(duo0);
    // C03's own thorough tier uses 2 rows per table (3 rows did not finish within 80 minutes) but five times the generated programs
    let progs = programs_n(seed, if thorough { 800 } else { 160 });
    let chunks: Vec<Vec<(String, String)>> = {
        let mut c: Vec<Vec<(String, String)>> = (0..threads).map(|_| vec![]).collect();
        for (i, p) in progs.into_iter().enumerate() {
            c[i % threads].push(p);
        }
        c
    };
    let mut total = T03::new();
    let (mut queries, mut secs, mut errors, mut disag) = (0u64, 0.0f64, 0u64, 0u64);
    std::thread::scope(|s| {
        let hs: Vec<_> = chunks
            .iter()
            .enumerate()
            .map(|(ci, chunk)| {
                s.spawn(move || {
                    let w = World::new(default_tables());
                    let mut duo = Duo::new(timeout_ms, true);
                    let mut t = T03::new();
                    let state = w.ctx.state();
                    let all_rules: Vec<Arc<dyn OptimizerRule + Send + Sync>> = state.optimizer().rules.clone();
                    // the same (analyzed, optimized) pair is decided once (pipeline-minus-X usually equals the full pipeline)
                    let mut seen: HashSet<String> = HashSet::new();
                    for (pi, (fam, sql)) in chunk.iter().enumerate() {
                        let r = std::panic::catch_unwind(std::panic::AssertUnwindSafe(|| {
                            let analyzed = match w.analyzed(sql) {
                                Ok(p) => p,
                                Err(_) => {
                                    t.plan_errors += 1;
                                    return;
                                }
                            };
                            // (i) the full default pipeline
                            match state.optimizer().optimize(analyzed.clone(), &state, |_, _| {}) {
                                Ok(opt) => {
                                    if format!("{}", opt.display_indent()) == format!("{}", analyzed.display_indent()) {
                                        t.unchanged += 1;
                                    } else {
                                        seen.insert(format!("{}=>{}", analyzed.display_indent(), opt.display_indent()));
                                        let out = plans_equivalent(&mut duo, &w, nrows, &analyzed, &opt, true);
                                        let sig = if matches!(out, Outcome::Violation(_)) { format!("optimizer pipeline: {}", culprit(&analyzed, &all_rules)) } else { String::new() };
                                        t.handle(&format!("pipeline/{fam}"), sql, &analyzed, &opt, out, sig);
                                    }
                                }
                                Err(e) => t.inconclusive.push(format!("optimizer failed on {sql}: {e}")),
                            }
                            // (ii) each rule alone, (iii) the pipeline minus one rule: on a rotating slice of programs
                            let do_rules = if thorough { (pi + ci) % 2 == 0 } else { (pi + ci) % 3 == 0 };
                            if do_rules {
                                for (ri, rule) in all_rules.iter().enumerate() {
                                    let single = Optimizer::with_rules(vec![rule.clone()]);
                                    if let Ok(opt) = single.optimize(analyzed.clone(), &state, |_, _| {}) {
                                        if format!("{}", opt.display_indent()) != format!("{}", analyzed.display_indent())
                                            && seen.insert(format!("{}=>{}", analyzed.display_indent(), opt.display_indent()))
                                        {
                                            let out = plans_equivalent(&mut duo, &w, 2, &analyzed, &opt, true);
                                            t.handle(&format!("rule-alone/{}", rule.name()), sql, &analyzed, &opt, out, format!("rule alone: {}", rule.name()));
                                        }
                                    }
                                    if (pi + ri) % 3 == 0 {
                                        let mut rest = all_rules.clone();
                                        rest.remove(ri);
                                        let minus = Optimizer::with_rules(rest.clone());
                                        if let Ok(opt) = minus.optimize(analyzed.clone(), &state, |_, _| {}) {
                                            if format!("{}", opt.display_indent()) != format!("{}", analyzed.display_indent())
                                                && seen.insert(format!("{}=>{}", analyzed.display_indent(), opt.display_indent()))
                                            {
                                                let out = plans_equivalent(&mut duo, &w, 2, &analyzed, &opt, true);
                                                let sig = if matches!(out, Outcome::Violation(_)) { format!("pipeline minus {}: {}", rule.name(), culprit(&analyzed, &rest)) } else { String::new() };
                                                t.handle(&format!("pipeline-minus/{}", rule.name()), sql, &analyzed, &opt, out, sig);
                                            }
                                        }
                                    }
                                }
                            }
                        }));
                        if r.is_err() {
                            *t.unsupported.entry("panic while processing the program".into()).or_insert(0) += 1;
                            duo = Duo::new(timeout_ms, true);
                        }
                    }
                    (t, duo.queries(), duo.secs(), duo.errors(), duo.disagreements)
                })
            })
            .collect();
        for h in hs {
            let (t, q, ss, e, d) = h.join().unwrap();
            total.merge(t);
            queries += q;
            secs += ss;
            errors += e;
            disag += d;
        }
    });
    total.inconclusive.truncate(30);
    let mut v = total.to_json(Some(&grid), json!({"queries": queries, "secs": secs, "errors": errors, "disagreements": disag, "solvers": ["z3 5.1.0 (z3-new)", "z3 4.8.12"]}), t0.elapsed().as_secs_f64());
    v["rows_per_table"] = json!(nrows);
    v
}
