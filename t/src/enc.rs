//! X -> SMT-LIB.  A value is (em, eu, n, v): may-error (over-approximation), must-error
//! (under-approximation), is-NULL, payload (Bool or bit-vector of the Arrow width).
//! Semantics are those of DataFusion's evaluator on a ONE-ROW batch (so short-circuiting of
//! AND/OR/CASE is exactly row-wise); they are cross-validated against the real evaluator on a
//! boundary-value grid on every run (see grid.rs).

use crate::ir::*;
use std::collections::HashMap;

#[derive(Clone, Debug)]
pub struct V {
    pub em: String,
    pub eu: String,
    pub n: String,
    pub v: String,
    pub ty: Ty,
}

pub struct Enc {
    pub decls: Vec<String>,
    pub asserts: Vec<String>,
    pub cols: HashMap<String, (String, String, Ty, bool)>,
    pub col_order: Vec<String>,
    k: usize,
    pub prefix: String,
    /// grid mode: the operands are concrete, so a plain division circuit folds to a constant at once
    pub direct_div: bool,
}

pub fn bv_lit(v: i128, bits: u32) -> String {
    let m: u128 = if bits == 128 { u128::MAX } else { (1u128 << bits) - 1 };
    let u = (v as u128) & m;
    format!("(_ bv{} {})", u, bits)
}

pub fn lit_of(ty: &Ty, v: i128) -> String {
    if ty.is_bv() {
        bv_lit(v, ty.bits())
    } else if v != 0 {
        "true".into()
    } else {
        "false".into()
    }
}

fn or2(a: &str, b: &str) -> String {
    if a == "false" {
        return b.to_string();
    }
    if b == "false" {
        return a.to_string();
    }
    if a == "true" || b == "true" {
        return "true".into();
    }
    if a == b {
        return a.to_string();
    }
    format!("(or {a} {b})")
}
fn and2(a: &str, b: &str) -> String {
    if a == "true" {
        return b.to_string();
    }
    if b == "true" {
        return a.to_string();
    }
    if a == "false" || b == "false" {
        return "false".into();
    }
    if a == b {
        return a.to_string();
    }
    format!("(and {a} {b})")
}
fn not1(a: &str) -> String {
    match a {
        "true" => "false".into(),
        "false" => "true".into(),
        _ => format!("(not {a})"),
    }
}
fn ite(c: &str, a: &str, b: &str) -> String {
    match c {
        "true" => a.to_string(),
        "false" => b.to_string(),
        _ => {
            if a == b {
                a.to_string()
            } else {
                format!("(ite {c} {a} {b})")
            }
        }
    }
}

impl Enc {
    pub fn new(prefix: &str) -> Enc {
        Enc { decls: vec![], asserts: vec![], cols: HashMap::new(), col_order: vec![], k: 0, prefix: prefix.to_string(), direct_div: false }
    }

    pub fn def(&mut self, sort: &str, body: String) -> String {
        if !body.starts_with('(') || body.starts_with("(_ bv") {
            return body;
        }
        self.k += 1;
        let name = format!("{}{}", self.prefix, self.k);
        self.decls.push(format!("(define-fun {name} () {sort} {body})"));
        name
    }
    fn defb(&mut self, body: String) -> String {
        self.def("Bool", body)
    }

    /// declare a (row, column) cell; `tag` distinguishes rows / tables
    pub fn declare_col(&mut self, name: &str, ty: &Ty, nullable: bool) {
        if self.cols.contains_key(name) {
            return;
        }
        let clean: String = name.chars().map(|c| if c.is_ascii_alphanumeric() { c } else { '_' }).collect();
        let n = format!("n_{clean}");
        let v = format!("v_{clean}");
        self.decls.push(format!("(declare-const {n} Bool)"));
        self.decls.push(format!("(declare-const {v} {})", ty.sort()));
        if !nullable {
            self.asserts.push(format!("(not {n})"));
        }
        if let Ty::Dec { p, .. } = ty {
            let (lo, hi) = Ty::Dec { p: *p, s: 0 }.min_max();
            self.asserts.push(format!("(and (bvsle {} {v}) (bvsle {v} {}))", bv_lit(lo, 128), bv_lit(hi, 128)));
        }
        if matches!(ty, Ty::Null) {
            self.asserts.push(n.clone());
        }
        self.cols.insert(name.to_string(), (n, v, ty.clone(), nullable));
        self.col_order.push(name.to_string());
    }

    pub fn null_of(&self, ty: &Ty) -> V {
        V { em: "false".into(), eu: "false".into(), n: "true".into(), v: lit_of(ty, 0), ty: ty.clone() }
    }

    /// a Null-typed value used where `ty` is expected
    fn as_ty(&self, v: V, ty: &Ty) -> R<V> {
        if &v.ty == ty {
            return Ok(v);
        }
        if v.ty == Ty::Null {
            return Ok(V { em: v.em, eu: v.eu, n: "true".into(), v: lit_of(ty, 0), ty: ty.clone() });
        }
        unsup(format!("type mismatch {} vs {}", v.ty, ty))
    }

    pub fn expr(&mut self, x: &X) -> R<V> {
        match x {
            X::Col { name, ty, nullable } => {
                self.declare_col(name, ty, *nullable);
                let (n, v, cty, _) = self.cols.get(name).unwrap().clone();
                if &cty != ty {
                    return unsup(format!("column {name} used with two types"));
                }
                Ok(V { em: "false".into(), eu: "false".into(), n, v, ty: ty.clone() })
            }
            X::Lit { ty, v } => Ok(match v {
                None => self.null_of(ty),
                Some(v) => V { em: "false".into(), eu: "false".into(), n: "false".into(), v: lit_of(ty, *v), ty: ty.clone() },
            }),
            X::Bin { op, l, r } => {
                let a = self.expr(l)?;
                let b = self.expr(r)?;
                self.bin(*op, a, b)
            }
            X::Not(e) => {
                let a = self.expr(e)?;
                if a.ty == Ty::Null {
                    return Ok(self.null_of(&Ty::Bool));
                }
                if a.ty != Ty::Bool {
                    return unsup("NOT on non-boolean");
                }
                let v = self.defb(not1(&a.v));
                Ok(V { v, ..a })
            }
            X::Neg(e) => {
                let a = self.expr(e)?;
                if !a.ty.is_int() || !a.ty.signed() {
                    return unsup(format!("negation of {}", a.ty));
                }
                // arrays: arrow `neg_wrapping`; an operand without column references evaluates to a scalar, and
                // ScalarValue::arithmetic_negate is CHECKED (negating the type minimum is an error)
                let v = self.def(&a.ty.sort(), format!("(bvneg {})", a.v));
                let mut cols = vec![];
                e.columns(&mut cols);
                if cols.is_empty() {
                    let ovf = and2(&not1(&a.n), &format!("(= {} {})", a.v, bv_lit(a.ty.min_max().0, a.ty.bits())));
                    let (em, eu) = (or2(&a.em, &ovf), or2(&a.eu, &ovf));
                    return Ok(V { v, em, eu, ..a });
                }
                Ok(V { v, ..a })
            }
            X::Is(op, e) => {
                let a = self.expr(e)?;
                let (n, v) = (a.n.clone(), a.v.clone());
                if !matches!(op, IsOp::Null | IsOp::NotNull) && a.ty != Ty::Bool && a.ty != Ty::Null {
                    return unsup("IS TRUE/FALSE on non-boolean");
                }
                let body = match op {
                    IsOp::Null | IsOp::Unknown => n,
                    IsOp::NotNull | IsOp::NotUnknown => not1(&n),
                    IsOp::True => and2(&not1(&n), &v),
                    IsOp::False => and2(&not1(&n), &not1(&v)),
                    IsOp::NotTrue => or2(&n, &not1(&v)),
                    IsOp::NotFalse => or2(&n, &v),
                };
                let v = self.defb(body);
                Ok(V { em: a.em, eu: a.eu, n: "false".into(), v, ty: Ty::Bool })
            }
            X::InList { e, list, negated } => {
                let a = self.expr(e)?;
                let mut em = a.em.clone();
                let mut eu = a.eu.clone();
                let mut found = "false".to_string();
                let mut anynull = "false".to_string();
                for (k, it) in list.iter().enumerate() {
                    let b = self.expr(it)?;
                    let b = self.as_ty(b, &a.ty)?;
                    em = or2(&em, &b.em);
                    // a list with non-literal items is planned as a chain of `OR`ed equalities, which
                    // short-circuits: only the expression and the first item are certainly evaluated
                    if k == 0 {
                        eu = or2(&eu, &b.eu);
                    }
                    found = or2(&found, &and2(&not1(&b.n), &format!("(= {} {})", a.v, b.v)));
                    anynull = or2(&anynull, &b.n);
                }
                let found = self.defb(found);
                let n = self.defb(or2(&a.n, &and2(&not1(&found), &anynull)));
                let v = if *negated { not1(&found) } else { found };
                let v = self.defb(v);
                Ok(V { em: self.defb(em), eu: self.defb(eu), n, v, ty: Ty::Bool })
            }
            X::Case { operand, whens, els, ty } => {
                let op_v = match operand {
                    Some(o) => Some(self.expr(o)?),
                    None => None,
                };
                let mut em = op_v.as_ref().map(|o| o.em.clone()).unwrap_or("false".into());
                let mut eu = op_v.as_ref().map(|o| o.eu.clone()).unwrap_or("false".into());
                // `pending` = no earlier branch matched
                let mut pending = "true".to_string();
                let mut res_n = "true".to_string();
                let mut res_v = lit_of(ty, 0);
                let mut branches: Vec<(String, V)> = vec![];
                for (w, t) in whens {
                    let wv = self.expr(w)?;
                    let tv = self.expr(t)?;
                    let tv = self.as_ty(tv, ty)?;
                    let cond = match &op_v {
                        Some(o) => {
                            let wv2 = self.as_ty(wv.clone(), &o.ty)?;
                            and2(&and2(&not1(&o.n), &not1(&wv2.n)), &format!("(= {} {})", o.v, wv2.v))
                        }
                        None => {
                            if wv.ty != Ty::Bool && wv.ty != Ty::Null {
                                return unsup("CASE WHEN on non-boolean");
                            }
                            and2(&not1(&wv.n), &wv.v)
                        }
                    };
                    let cond = self.defb(cond);
                    // may-error: eager (any sub-expression); must-error: lazy row-wise
                    em = or2(&em, &or2(&wv.em, &tv.em));
                    eu = or2(&eu, &and2(&pending, &wv.eu));
                    let matched = self.defb(and2(&pending, &cond));
                    eu = or2(&eu, &and2(&matched, &tv.eu));
                    branches.push((matched.clone(), tv));
                    pending = self.defb(and2(&pending, &not1(&cond)));
                }
                let els_v = match els {
                    Some(e) => {
                        let ev = self.expr(e)?;
                        let ev = self.as_ty(ev, ty)?;
                        em = or2(&em, &ev.em);
                        eu = or2(&eu, &and2(&pending, &ev.eu));
                        ev
                    }
                    None => self.null_of(ty),
                };
                // fold from the last branch backwards
                res_n = ite(&pending, &els_v.n, &res_n);
                res_v = ite(&pending, &els_v.v, &res_v);
                for (m, tv) in branches.iter().rev() {
                    res_n = ite(m, &tv.n, &res_n);
                    res_v = ite(m, &tv.v, &res_v);
                }
                let n = self.defb(res_n);
                let v = self.def(&ty.sort(), res_v);
                Ok(V { em: self.defb(em), eu: self.defb(eu), n, v, ty: ty.clone() })
            }
            X::Cast { e, to, try_ } => {
                let a = self.expr(e)?;
                self.cast(a, to, *try_)
            }
            X::Func { name, args, ty } => {
                let mut vs = vec![];
                for a in args {
                    vs.push(self.expr(a)?);
                }
                self.func(name, vs, ty)
            }
        }
    }

    fn bool_to_bv1(&mut self, v: &str) -> String {
        format!("(ite {v} #b1 #b0)")
    }

    pub fn bin(&mut self, op: BinOp, a: V, b: V) -> R<V> {
        use BinOp::*;
        if op.is_logic() {
            if !(matches!(a.ty, Ty::Bool | Ty::Null) && matches!(b.ty, Ty::Bool | Ty::Null)) {
                return unsup("AND/OR on non-boolean");
            }
            let a = self.as_ty(a, &Ty::Bool)?;
            let b = self.as_ty(b, &Ty::Bool)?;
            let (at, af) = (and2(&not1(&a.n), &a.v), and2(&not1(&a.n), &not1(&a.v)));
            let (bt, bf) = (and2(&not1(&b.n), &b.v), and2(&not1(&b.n), &not1(&b.v)));
            let (at, af, bt, bf) = (self.defb(at), self.defb(af), self.defb(bt), self.defb(bf));
            let (is_t, is_f, skip_rhs) = if op == And {
                (and2(&at, &bt), or2(&af, &bf), af.clone())
            } else {
                (or2(&at, &bt), and2(&af, &bf), at.clone())
            };
            let is_t = self.defb(is_t);
            let is_f = self.defb(is_f);
            let n = self.defb(and2(&not1(&is_t), &not1(&is_f)));
            // one-row batch: the right operand is evaluated unless the left one decides the result
            let em = self.defb(or2(&a.em, &and2(&not1(&skip_rhs), &b.em)));
            let eu = self.defb(or2(&a.eu, &and2(&not1(&skip_rhs), &b.eu)));
            return Ok(V { em, eu, n, v: is_t, ty: Ty::Bool });
        }
        let em = self.defb(or2(&a.em, &b.em));
        let eu = self.defb(or2(&a.eu, &b.eu));
        if op.is_cmp() {
            // NULL-typed operand: comparison with an untyped NULL
            let (a, b) = if a.ty == Ty::Null && b.ty != Ty::Null {
                let t = b.ty.clone();
                (self.as_ty(a, &t)?, b)
            } else if b.ty == Ty::Null && a.ty != Ty::Null {
                let t = a.ty.clone();
                (a, self.as_ty(b, &t)?)
            } else {
                (a, b)
            };
            if a.ty != b.ty {
                return unsup(format!("comparison of {} with {}", a.ty, b.ty));
            }
            let (av, bv, signed) = if a.ty.is_bv() {
                (a.v.clone(), b.v.clone(), a.ty.signed())
            } else {
                (self.bool_to_bv1(&a.v), self.bool_to_bv1(&b.v), false)
            };
            let lt = |x: &str, y: &str| if signed { format!("(bvslt {x} {y})") } else { format!("(bvult {x} {y})") };
            let le = |x: &str, y: &str| if signed { format!("(bvsle {x} {y})") } else { format!("(bvule {x} {y})") };
            let eqv = format!("(= {av} {bv})");
            let n = self.defb(or2(&a.n, &b.n));
            let (n, v) = match op {
                Eq => (n, eqv),
                NotEq => (n, not1(&eqv)),
                Lt => (n, lt(&av, &bv)),
                LtEq => (n, le(&av, &bv)),
                Gt => (n, lt(&bv, &av)),
                GtEq => (n, le(&bv, &av)),
                IsDistinctFrom | IsNotDistinctFrom => {
                    let same = or2(&and2(&a.n, &b.n), &and2(&and2(&not1(&a.n), &not1(&b.n)), &eqv));
                    ("false".to_string(), if op == IsDistinctFrom { not1(&same) } else { same })
                }
                _ => unreachable!(),
            };
            let v = self.defb(v);
            return Ok(V { em, eu, n, v, ty: Ty::Bool });
        }
        // arithmetic / bitwise on integers of one type
        if a.ty != b.ty || !a.ty.is_int() {
            return unsup(format!("arithmetic {:?} on {} and {}", op, a.ty, b.ty));
        }
        let ty = a.ty.clone();
        let w = ty.bits();
        let signed = ty.signed();
        let n = self.defb(or2(&a.n, &b.n));
        let sort = ty.sort();
        let (v, fail) = match op {
            Plus => (format!("(bvadd {} {})", a.v, b.v), "false".to_string()),
            Minus => (format!("(bvsub {} {})", a.v, b.v), "false".to_string()),
            Multiply => (format!("(bvmul {} {})", a.v, b.v), "false".to_string()),
            BitAnd => (format!("(bvand {} {})", a.v, b.v), "false".to_string()),
            BitOr => (format!("(bvor {} {})", a.v, b.v), "false".to_string()),
            BitXor => (format!("(bvxor {} {})", a.v, b.v), "false".to_string()),
            Divide | Modulo => {
                let zero = format!("(= {} {})", b.v, bv_lit(0, w));
                let ovf = if signed {
                    format!("(and (= {} {}) (= {} {}))", a.v, bv_lit(ty.min_max().0, w), b.v, bv_lit(-1, w))
                } else {
                    "false".to_string()
                };
                // arrow: MIN / -1 overflows (error); MIN % -1 is 0
                let f = if op == Divide { or2(&zero, &ovf) } else { zero.clone() };
                let opn = match (op, signed) {
                    (Divide, true) => "bvsdiv",
                    (Divide, false) => "bvudiv",
                    (Modulo, true) => "bvsrem",
                    _ => "bvurem",
                };
                (format!("({opn} {} {})", a.v, b.v), f)
            }
            _ => return unsup(format!("operator {:?}", op)),
        };
        let v = self.def(&sort, v);
        // the kernel only touches valid slots: an error needs both operands non-NULL
        let fail = self.defb(and2(&not1(&n), &fail));
        let em = self.defb(or2(&em, &fail));
        let eu = self.defb(or2(&eu, &fail));
        Ok(V { em, eu, n, v, ty })
    }

    /// sign/zero-extend to 256 bits (every supported type fits, products with 10^38 too)
    fn ext256(&self, v: &V) -> String {
        let w = v.ty.bits();
        if v.ty.signed() {
            format!("((_ sign_extend {}) {})", 256 - w, v.v)
        } else {
            format!("((_ zero_extend {}) {})", 256 - w, v.v)
        }
    }

    /// Truncating signed division of a `w`-bit value by a positive constant, WITHOUT a division circuit:
    /// fresh q, r with  x = q*c + r,  r has the sign of x (or is 0),  |r| < c.  The constraints are
    /// definitional (for every x exactly one (q, r) satisfies them), so they go to the global
    /// assumptions and cannot make a query vacuous.  Returns (q, r) sign-extended to 256 bits.
    fn div_const(&mut self, x: &str, w: u32, c: i128) -> (String, String) {
        if self.direct_div {
            let cl = if c >= 0 { format!("(_ bv{} {w})", c) } else { format!("(bvneg (_ bv{} {w}))", c.unsigned_abs()) };
            return (format!("((_ sign_extend {}) (bvsdiv {x} {cl}))", 256 - w), format!("((_ sign_extend {}) (bvsrem {x} {cl}))", 256 - w));
        }
        self.k += 1;
        let q = format!("{}q{}", self.prefix, self.k);
        let r = format!("{}r{}", self.prefix, self.k);
        let sort = format!("(_ BitVec {w})");
        self.decls.push(format!("(declare-const {q} {sort})"));
        self.decls.push(format!("(declare-const {r} {sort})"));
        let e = w + 130; // wide enough for q*c + r without wrap-around
        let lit = |v: i128| {
            if v >= 0 {
                format!("(_ bv{} {})", v, e)
            } else {
                format!("(bvneg (_ bv{} {}))", v.unsigned_abs(), e)
            }
        };
        let ext = |t: &str| format!("((_ sign_extend {}) {t})", e - w);
        let (xe, qe, re) = (ext(x), ext(&q), ext(&r));
        let zero = lit(0);
        self.asserts.push(format!("(= {xe} (bvadd (bvmul {qe} {}) {re}))", lit(c)));
        self.asserts.push(format!(
            "(ite (bvsge {xe} {zero}) (and (bvsge {re} {zero}) (bvslt {re} {})) (and (bvsle {re} {zero}) (bvsgt {re} {})))",
            lit(c),
            lit(-c)
        ));
        (format!("((_ sign_extend {}) {q})", 256 - w), format!("((_ sign_extend {}) {r})", 256 - w))
    }

    fn bv256(v: i128) -> String {
        // two's complement of an i128 in 256 bits
        if v >= 0 {
            format!("(_ bv{} 256)", v)
        } else {
            format!("(bvneg (_ bv{} 256))", v.unsigned_abs())
        }
    }

    pub fn cast(&mut self, a: V, to: &Ty, try_: bool) -> R<V> {
        if &a.ty == to {
            return Ok(a);
        }
        if a.ty == Ty::Null {
            return Ok(V { em: a.em, eu: a.eu, ..self.null_of(to) });
        }
        // wide = exact mathematical value of the result in 256-bit two's complement, `fits` = representable
        let (wide, fits): (String, String) = match (&a.ty, to) {
            (Ty::Int { .. }, Ty::Int { .. }) => {
                let x = self.ext256(&a);
                let x = self.def("(_ BitVec 256)", x);
                let (lo, hi) = to.min_max();
                (x.clone(), format!("(and (bvsle {} {x}) (bvsle {x} {}))", Self::bv256(lo), Self::bv256(hi)))
            }
            (Ty::Int { .. }, Ty::Dec { p, s }) if *s >= 0 => {
                let x = self.ext256(&a);
                let x = self.def("(_ BitVec 256)", format!("(bvmul {x} {})", Self::bv256(10i128.pow(*s as u32))));
                let (lo, hi) = Ty::Dec { p: *p, s: 0 }.min_max();
                (x.clone(), format!("(and (bvsle {} {x}) (bvsle {x} {}))", Self::bv256(lo), Self::bv256(hi)))
            }
            (Ty::Dec { s: s1, .. }, Ty::Dec { p: p2, s: s2 }) if s2 >= s1 => {
                let x = self.ext256(&a);
                let x = self.def("(_ BitVec 256)", format!("(bvmul {x} {})", Self::bv256(10i128.pow((*s2 - *s1) as u32))));
                let (lo, hi) = Ty::Dec { p: *p2, s: 0 }.min_max();
                (x.clone(), format!("(and (bvsle {} {x}) (bvsle {x} {}))", Self::bv256(lo), Self::bv256(hi)))
            }
            (Ty::Bool, Ty::Int { .. }) => {
                let x = format!("(ite {} (_ bv1 256) (_ bv0 256))", a.v);
                (x, "true".into())
            }
            (Ty::Date32, Ty::Date64) => {
                let x = self.ext256(&a);
                let x = self.def("(_ BitVec 256)", format!("(bvmul {x} (_ bv86400000 256))"));
                (x, "true".into())
            }
            (Ty::Ts(u1), Ty::Ts(u2)) => {
                let x = self.ext256(&a);
                if u2 > u1 {
                    let f = 1000i128.pow((*u2 - *u1) as u32);
                    let x = self.def("(_ BitVec 256)", format!("(bvmul {x} {})", Self::bv256(f)));
                    let (lo, hi) = to.min_max();
                    (x.clone(), format!("(and (bvsle {} {x}) (bvsle {x} {}))", Self::bv256(lo), Self::bv256(hi)))
                } else {
                    // coarser unit: plain integer division (truncates toward zero)
                    let f = 1000i128.pow((*u1 - *u2) as u32);
                    let _ = x;
                    let (q, _r) = self.div_const(&a.v, 64, f);
                    (self.def("(_ BitVec 256)", q), "true".into())
                }
            }
            (Ty::Date32, Ty::Ts(u)) => {
                let x = self.ext256(&a);
                let f = 86400i128 * 1000i128.pow(*u as u32);
                let x = self.def("(_ BitVec 256)", format!("(bvmul {x} {})", Self::bv256(f)));
                let (lo, hi) = to.min_max();
                (x.clone(), format!("(and (bvsle {} {x}) (bvsle {x} {}))", Self::bv256(lo), Self::bv256(hi)))
            }
            (Ty::Dec { s, .. }, Ty::Int { .. }) if *s >= 0 => {
                // decimal -> integer: divide by 10^scale, truncating toward zero
                let (q, _r) = self.div_const(&a.v, 128, 10i128.pow(*s as u32));
                let x = self.def("(_ BitVec 256)", q);
                let (lo, hi) = to.min_max();
                (x.clone(), format!("(and (bvsle {} {x}) (bvsle {x} {}))", Self::bv256(lo), Self::bv256(hi)))
            }
            (Ty::Dec { s: s1, .. }, Ty::Dec { p: p2, s: s2 }) if s2 < s1 => {
                // fewer fractional digits: round half away from zero
                let x = self.ext256(&a);
                let x = self.def("(_ BitVec 256)", x);
                let div = 10i128.pow((*s1 - *s2) as u32);
                let half = div / 2;
                let (q, r) = self.div_const(&a.v, 128, div);
                let q = self.def("(_ BitVec 256)", q);
                let r = self.def("(_ BitVec 256)", r);
                let adj = format!(
                    "(ite (and (bvsge {x} (_ bv0 256)) (bvsge {r} {h})) (_ bv1 256) (ite (and (bvslt {x} (_ bv0 256)) (bvsle {r} {nh})) {m1} (_ bv0 256)))",
                    h = Self::bv256(half),
                    nh = Self::bv256(-half),
                    m1 = Self::bv256(-1)
                );
                let y = self.def("(_ BitVec 256)", format!("(bvadd {q} {adj})"));
                let (lo, hi) = Ty::Dec { p: *p2, s: 0 }.min_max();
                (y.clone(), format!("(and (bvsle {} {y}) (bvsle {y} {}))", Self::bv256(lo), Self::bv256(hi)))
            }
            (f, t) => return unsup(format!("cast {f} -> {t}")),
        };
        let fits = self.defb(fits);
        let v = self.def(&to.sort(), format!("((_ extract {} 0) {wide})", to.bits() - 1));
        let bad = self.defb(and2(&not1(&a.n), &not1(&fits)));
        if try_ {
            let n = self.defb(or2(&a.n, &bad));
            Ok(V { em: a.em, eu: a.eu, n, v, ty: to.clone() })
        } else {
            let em = self.defb(or2(&a.em, &bad));
            let eu = self.defb(or2(&a.eu, &bad));
            Ok(V { em, eu, n: a.n, v, ty: to.clone() })
        }
    }

    fn func(&mut self, name: &str, args: Vec<V>, ty: &Ty) -> R<V> {
        match name {
            "coalesce" => {
                // first non-NULL argument; later arguments are evaluated lazily (may-error: eager)
                let mut em = "false".to_string();
                let mut eu = "false".to_string();
                let mut pending = "true".to_string();
                let mut n = "true".to_string();
                let mut v = lit_of(ty, 0);
                let mut parts = vec![];
                for a in args {
                    let a = self.as_ty(a, ty)?;
                    em = or2(&em, &a.em);
                    eu = or2(&eu, &and2(&pending, &a.eu));
                    let take = self.defb(and2(&pending, &not1(&a.n)));
                    pending = self.defb(and2(&pending, &a.n));
                    parts.push((take, a));
                }
                for (take, a) in parts.iter().rev() {
                    n = ite(take, "false", &n);
                    v = ite(take, &a.v, &v);
                }
                Ok(V { em: self.defb(em), eu: self.defb(eu), n: self.defb(n), v: self.def(&ty.sort(), v), ty: ty.clone() })
            }
            "nullif" if args.len() == 2 => {
                let a = args[0].clone();
                let b = self.as_ty(args[1].clone(), &a.ty)?;
                let same = and2(&and2(&not1(&a.n), &not1(&b.n)), &format!("(= {} {})", a.v, b.v));
                let n = self.defb(or2(&a.n, &same));
                Ok(V { em: self.defb(or2(&a.em, &b.em)), eu: self.defb(or2(&a.eu, &b.eu)), n, v: a.v, ty: a.ty })
            }
            _ => unsup(format!("function {name}")),
        }
    }

    /// Bool term: the two values are the same result (same NULL-ness and, if not NULL, same payload)
    pub fn same_value(a: &V, b: &V) -> String {
        format!("(and (= {} {}) (or {} (= {} {})))", a.n, b.n, a.n, a.v, b.v)
    }

    pub fn preamble(&self) -> String {
        let mut s = self.decls.join("\n");
        s.push('\n');
        for a in &self.asserts {
            s.push_str(&format!("(assert {a})\n"));
        }
        s
    }

    /// names to read back from a model: the cells of all declared columns
    pub fn model_names(&self) -> Vec<String> {
        let mut v = vec![];
        for c in &self.col_order {
            let (n, val, _, _) = &self.cols[c];
            v.push(n.clone());
            v.push(val.clone());
        }
        v
    }
}
