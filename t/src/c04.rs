//! C04 — expression simplification preserves value (translation validation).
//! The real `ExprSimplifier` (with / without canonicalisation, with guarantees) is run on every
//! program of the grammar; z3 decides, per program, that no row exists on which the original
//! evaluates without error and the simplified expression differs.

use crate::enc::{lit_of, Enc};
use crate::gen::{self, Gen};
use crate::ir::*;
use crate::lx;
use crate::smt::Duo;
use crate::tvq::{check_pair, Outcome};
use datafusion::arrow::datatypes::{Field, Schema};
use datafusion::common::{DFSchema, ScalarValue};
use datafusion::logical_expr::interval_arithmetic::{Interval, NullableInterval};
use datafusion::logical_expr::simplify::SimplifyContext;
use datafusion::logical_expr::Expr;
use datafusion::optimizer::simplify_expressions::ExprSimplifier;
use serde_json::{json, Value};
use std::collections::BTreeMap;
use std::sync::Arc;

#[derive(Clone)]
pub struct Guar {
    pub col: String,
    pub ty: Ty,
    /// 0 = Null, 1 = MaybeNull, 2 = NotNull
    pub kind: u8,
    pub lo: Option<i128>,
    pub hi: Option<i128>,
}

#[derive(Clone)]
pub struct Program {
    pub family: String,
    pub x: X,
    pub cols: Vec<(String, Ty, bool)>,
    pub guarantees: Vec<Guar>,
    pub canonicalize: bool,
}

pub fn schema_for(cols: &[(String, Ty, bool)]) -> Arc<DFSchema> {
    let fields: Vec<Field> = cols.iter().map(|(n, t, nl)| Field::new(n, lx::ty_to_dt(t), *nl)).collect();
    Arc::new(DFSchema::try_from(Schema::new(fields)).unwrap())
}

fn std_cols(ity: &Ty) -> Vec<(String, Ty, bool)> {
    vec![("a".into(), ity.clone(), true), ("b".into(), ity.clone(), true), ("p".into(), Ty::Bool, true), ("q".into(), Ty::Bool, true)]
}

pub fn programs(thorough: bool, seed: u64) -> Vec<Program> {
    let mut out = vec![];
    let main_types = if thorough {
        vec![gen::i(32, true), gen::i(8, true), gen::i(64, true), gen::i(8, false), gen::i(64, false), gen::i(16, true), gen::i(32, false)]
    } else {
        vec![gen::i(32, true), gen::i(8, false), gen::i(64, true)]
    };
    let mut rng = gen::Rng::new(seed ^ 0xC04);
    for (k, ty) in main_types.iter().enumerate() {
        let cols = std_cols(ty);
        let mut fam: Vec<(String, Vec<X>)> = vec![
            ("atoms".into(), gen::atoms(ty)),
            ("arith-identities".into(), gen::arith_identities(ty)),
            ("known-probes".into(), gen::known_probes(ty)),
        ];
        if k == 0 || thorough {
            fam.push(("bool-patterns".into(), gen::bool_patterns(ty)));
            fam.push(("inlist-patterns".into(), gen::inlist_patterns(ty)));
        }
        // systematic guarantees: every expression of guarantee_exprs under every kind of guarantee
        {
            let (tlo, thi) = ty.min_max();
            let mut ivs: Vec<(Option<i128>, Option<i128>)> = vec![(Some(1), Some(3)), (Some(2), Some(2)), (None, Some(0)), (Some(0), None), (None, None)];
            if thorough {
                ivs.extend([(Some(tlo), Some(tlo)), (Some(thi), Some(thi)), (Some(tlo), Some(thi)), (Some(thi - 1), None)]);
            }
            for (lo, hi) in ivs {
                let mut xs = gen::guarantee_exprs(ty, lo.unwrap_or(1), hi.unwrap_or(3));
                if !thorough {
                    rng.shuffle(&mut xs);
                    xs.truncate(30);
                }
                for x in xs {
                    for kind in 0..3u8 {
                        out.push(Program {
                            family: format!("guarantees-systematic/{ty}"),
                            x: x.clone(),
                            cols: cols.clone(),
                            guarantees: vec![Guar { col: "a".into(), ty: ty.clone(), kind, lo, hi }],
                            canonicalize: false,
                        });
                    }
                }
            }
        }
        for (name, xs) in fam {
            let mut xs = xs;
            // quick tier: a seeded slice of the big families
            if !thorough && xs.len() > 700 {
                rng.shuffle(&mut xs);
                xs.truncate(700);
            }
            for x in xs {
                out.push(Program { family: format!("{name}/{ty}"), x, cols: cols.clone(), guarantees: vec![], canonicalize: false });
            }
        }
        // random deeper expressions
        let n_rand = if thorough { 6000 } else { 360 };
        let mut g = Gen::new(seed.wrapping_add(k as u64 * 7919), ty.clone());
        for j in 0..n_rand {
            let depth = 2 + (j % 3) as u32;
            let x = g.bool_expr(depth);
            out.push(Program { family: format!("random-d{depth}/{ty}"), x, cols: cols.clone(), guarantees: vec![], canonicalize: j % 5 == 0 });
        }
        // guarantees: boundary intervals on column a
        let vals = gen::lit_values(ty);
        let n_g = if thorough { 1500 } else { 180 };
        for j in 0..n_g {
            let x = g.bool_expr(1 + (j % 2) as u32);
            let kind = (g.rng.below(3)) as u8;
            let lo = if g.rng.chance(1, 4) { None } else { Some(*g.rng.pick(&vals)) };
            let hi = if g.rng.chance(1, 4) { None } else { Some(*g.rng.pick(&vals)) };
            let (lo, hi) = match (lo, hi) {
                (Some(l), Some(h)) if l > h => (Some(h), Some(l)),
                o => o,
            };
            let mut gs = vec![Guar { col: "a".into(), ty: ty.clone(), kind, lo, hi }];
            if g.rng.chance(1, 3) {
                gs.push(Guar { col: "p".into(), ty: Ty::Bool, kind: g.rng.below(3) as u8, lo: Some(g.rng.below(2) as i128), hi: None });
            }
            out.push(Program { family: format!("guarantees/{ty}"), x, cols: cols.clone(), guarantees: gs, canonicalize: false });
        }
    }
    // cast unwrapping
    let pairs: Vec<(Ty, Ty)> = if thorough {
        let ts = [gen::i(8, true), gen::i(16, true), gen::i(32, true), gen::i(64, true), gen::i(8, false), gen::i(16, false), gen::i(32, false), gen::i(64, false)];
        let mut v = vec![];
        for a in &ts {
            for b in &ts {
                if a != b {
                    v.push((a.clone(), b.clone()));
                }
            }
        }
        for a in &ts {
            v.push((a.clone(), Ty::Dec { p: 20, s: 0 }));
            v.push((a.clone(), Ty::Dec { p: 10, s: 2 }));
        }
        v
    } else {
        vec![
            (gen::i(32, true), gen::i(64, true)),
            (gen::i(64, true), gen::i(32, true)),
            (gen::i(8, false), gen::i(32, true)),
            (gen::i(32, true), gen::i(8, false)),
            (gen::i(8, true), gen::i(8, false)),
            (gen::i(64, false), gen::i(64, true)),
            (gen::i(32, true), Ty::Dec { p: 20, s: 0 }),
            (gen::i(16, true), Ty::Dec { p: 10, s: 2 }),
        ]
    };
    let mut pairs = pairs;
    // temporal and decimal conversions
    pairs.extend([
        (Ty::Ts(0), Ty::Ts(3)),
        (Ty::Ts(3), Ty::Ts(1)),
        (Ty::Ts(1), Ty::Ts(2)),
        (Ty::Date32, Ty::Date64),
        (Ty::Date32, Ty::Ts(1)),
        (Ty::Dec { p: 10, s: 2 }, gen::i(32, true)),
        (Ty::Dec { p: 10, s: 2 }, gen::i(64, true)),
        (Ty::Dec { p: 10, s: 2 }, Ty::Dec { p: 12, s: 4 }),
        (Ty::Dec { p: 10, s: 2 }, Ty::Dec { p: 10, s: 0 }),
    ]);
    if thorough {
        pairs.extend([
            (Ty::Ts(2), Ty::Ts(0)),
            (Ty::Ts(0), Ty::Ts(1)),
            (Ty::Ts(3), Ty::Ts(0)),
            (Ty::Date32, Ty::Ts(3)),
            (Ty::Date32, Ty::Ts(0)),
            (Ty::Dec { p: 5, s: 0 }, gen::i(16, true)),
            (Ty::Dec { p: 18, s: 2 }, gen::i(64, true)),
            (Ty::Dec { p: 20, s: 4 }, Ty::Dec { p: 38, s: 10 }),
        ]);
    }
    for (from, to) in pairs {
        let cols = vec![("a".to_string(), from.clone(), true)];
        let mut xs = gen::cast_compare(&from, &to);
        // quick tier: a seeded slice; conversions that need wide multipliers in the solver get a smaller one
        let cap = if from.is_int() && to.is_int() { 200 } else { 110 };
        if !thorough && xs.len() > cap {
            rng.shuffle(&mut xs);
            xs.truncate(cap);
        }
        for x in xs {
            out.push(Program { family: format!("cast-compare/{from}->{to}"), x, cols: cols.clone(), guarantees: vec![], canonicalize: false });
        }
    }
    out
}

fn guar_to_interval(g: &Guar) -> Option<NullableInterval> {
    if g.ty == Ty::Bool {
        let v = g.lo.unwrap_or(0) != 0;
        let iv = Interval::try_new(ScalarValue::Boolean(Some(v)), ScalarValue::Boolean(Some(v))).ok()?;
        return Some(match g.kind {
            0 => NullableInterval::Null { datatype: lx::ty_to_dt(&g.ty) },
            1 => NullableInterval::MaybeNull { values: iv },
            _ => NullableInterval::NotNull { values: iv },
        });
    }
    let iv = Interval::try_new(lx::lit_to_scalar(&g.ty, g.lo), lx::lit_to_scalar(&g.ty, g.hi)).ok()?;
    Some(match g.kind {
        0 => NullableInterval::Null { datatype: lx::ty_to_dt(&g.ty) },
        1 => NullableInterval::MaybeNull { values: iv },
        _ => NullableInterval::NotNull { values: iv },
    })
}

/// SMT assumption: the row satisfies the guarantee
fn guar_assume(enc: &mut Enc, g: &Guar) -> R<String> {
    enc.declare_col(&g.col, &g.ty, true);
    let (n, v, ty, _) = enc.cols[&g.col].clone();
    if ty != g.ty {
        return unsup("guarantee type");
    }
    let inrange = if g.ty == Ty::Bool {
        let want = g.lo.unwrap_or(0) != 0;
        if want {
            v.clone()
        } else {
            format!("(not {v})")
        }
    } else {
        let le = if g.ty.signed() { "bvsle" } else { "bvule" };
        let mut parts = vec![];
        if let Some(lo) = g.lo {
            parts.push(format!("({le} {} {v})", lit_of(&g.ty, lo)));
        }
        if let Some(hi) = g.hi {
            parts.push(format!("({le} {v} {})", lit_of(&g.ty, hi)));
        }
        if parts.is_empty() {
            "true".to_string()
        } else {
            format!("(and {} true)", parts.join(" "))
        }
    };
    Ok(match g.kind {
        0 => n,
        1 => format!("(or {n} {inrange})"),
        _ => format!("(and (not {n}) {inrange})"),
    })
}

pub struct Tally {
    pub programs: u64,
    pub changed: u64,
    pub equivalent: u64,
    pub trivial: u64,
    pub unchanged: u64,
    pub ill_typed: u64,
    pub simplifier_errors: Vec<String>,
    pub unsupported: BTreeMap<String, u64>,
    pub inconclusive: Vec<String>,
    pub violations: Vec<Value>,
    pub samples: Vec<Value>,
    pub families: BTreeMap<String, (u64, u64)>,
    pub fam_secs: BTreeMap<String, f64>,
    pub distinct_rewrites: std::collections::HashSet<String>,
    pub phys_programs: u64,
    pub phys_changed: u64,
    pub phys_equivalent: u64,
}

impl Tally {
    pub fn new() -> Tally {
        Tally {
            programs: 0,
            changed: 0,
            equivalent: 0,
            trivial: 0,
            unchanged: 0,
            ill_typed: 0,
            simplifier_errors: vec![],
            unsupported: BTreeMap::new(),
            inconclusive: vec![],
            violations: vec![],
            samples: vec![],
            families: BTreeMap::new(),
            fam_secs: BTreeMap::new(),
            distinct_rewrites: Default::default(),
            phys_programs: 0,
            phys_changed: 0,
            phys_equivalent: 0,
        }
    }
    pub fn merge(&mut self, o: Tally) {
        self.programs += o.programs;
        self.changed += o.changed;
        self.equivalent += o.equivalent;
        self.trivial += o.trivial;
        self.unchanged += o.unchanged;
        self.ill_typed += o.ill_typed;
        self.simplifier_errors.extend(o.simplifier_errors);
        for (k, v) in o.unsupported {
            *self.unsupported.entry(k).or_insert(0) += v;
        }
        self.inconclusive.extend(o.inconclusive);
        self.violations.extend(o.violations);
        self.samples.extend(o.samples);
        for (k, v) in o.fam_secs {
            *self.fam_secs.entry(k).or_insert(0.0) += v;
        }
        for (k, v) in o.families {
            let e = self.families.entry(k).or_insert((0, 0));
            e.0 += v.0;
            e.1 += v.1;
        }
        self.distinct_rewrites.extend(o.distinct_rewrites);
        self.phys_programs += o.phys_programs;
        self.phys_changed += o.phys_changed;
        self.phys_equivalent += o.phys_equivalent;
    }
}

/// abstract numeric literals and comparison operators: the "shape" of a rewrite, used as the
/// signature of a finding so that other violations of the same property are still reported
/// exactly one of the two replayed values is NULL (and neither is an error)
fn null_mismatch(v: &Value) -> bool {
    let o = v["original_value"].as_str().unwrap_or("");
    let r = v["rewritten_value"].as_str().unwrap_or("");
    !o.starts_with("ERROR") && !r.starts_with("ERROR") && !o.is_empty() && !r.is_empty() && (o.contains("NULL") != r.contains("NULL"))
}

fn any_node(x: &X, f: &dyn Fn(&X) -> bool) -> bool {
    if f(x) {
        return true;
    }
    match x {
        X::Col { .. } | X::Lit { .. } => false,
        X::Bin { l, r, .. } => any_node(l, f) || any_node(r, f),
        X::Not(e) | X::Neg(e) | X::Is(_, e) | X::Cast { e, .. } => any_node(e, f),
        X::InList { e, list, .. } => any_node(e, f) || list.iter().any(|y| any_node(y, f)),
        X::Case { operand, whens, els, .. } => {
            operand.as_ref().map(|o| any_node(o, f)).unwrap_or(false)
                || whens.iter().any(|(a, b)| any_node(a, f) || any_node(b, f))
                || els.as_ref().map(|o| any_node(o, f)).unwrap_or(false)
        }
        X::Func { args, .. } => args.iter().any(|y| any_node(y, f)),
    }
}

/// Signature of a violation.  Two recorded findings are recognised by the trigger in the ORIGINAL
/// expression (the exact precondition of the defective rewrite); everything else is keyed by the
/// literal-abstracted shape of the rewrite, so that a different violation is still reported.
pub fn signature(xo: Option<&X>, xs: Option<&X>, orig: &str, simp: &str, null_vs_bool: bool, err_introduced: bool) -> String {
    if let (Some(xo), Some(xs)) = (xo, xs) {
        // -(x & y), -(x | y): distribute_negation treats arithmetic negation as bitwise NOT
        if any_node(xo, &|n| matches!(n, X::Neg(e) if matches!(e.as_ref(), X::Bin { op: BinOp::BitAnd | BinOp::BitOr, .. }))) {
            return "negation-distributed-over-bitwise-and-or".into();
        }
        // the same rewrite when the bitwise operand only appears after another simplification (e.g. a constant-folded CASE
        // around it): the original negates something that contains & or |, the result is (-x) | (-y) or (-x) & (-y)
        let neg_over_bitop = |n: &X| matches!(n, X::Neg(e) if any_node(e, &|m| matches!(m, X::Bin { op: BinOp::BitAnd | BinOp::BitOr, .. })));
        let bitop_of_negs = |n: &X| matches!(n, X::Bin { op: BinOp::BitAnd | BinOp::BitOr, l, r } if matches!(l.as_ref(), X::Neg(_)) && matches!(r.as_ref(), X::Neg(_)));
        if any_node(xo, &neg_over_bitop) && any_node(xs, &bitop_of_negs) {
            return "negation-distributed-over-bitwise-and-or".into();
        }
        // TRY_CAST(col AS narrower) compared with literal(s): the cast is unwrapped although it can yield NULL
        let fallible_try_cast = |n: &X| match n {
            X::Cast { e, to, try_: true } => {
                let (flo, fhi) = e.ty().min_max();
                let (tlo, thi) = to.min_max();
                e.ty().is_int() && to.is_int() && (flo < tlo || fhi > thi)
            }
            _ => false,
        };
        let has_try = |x: &X| any_node(x, &|n| matches!(n, X::Cast { try_: true, .. }));
        if any_node(xo, &fallible_try_cast) && !has_try(xs) {
            return "try_cast-unwrapped-in-comparison/fallible-integer-narrowing".into();
        }
        // the same defect with other fallible targets: an integer that does not fit the decimal's precision, a date or a
        // coarser timestamp that overflows the finer timestamp unit
        let fallible_try_cast_dec = |n: &X| match n {
            X::Cast { e, to: Ty::Dec { p, s }, try_: true } => {
                let (flo, fhi) = e.ty().min_max();
                let digits = (*p as i32 - *s as i32).max(0) as u32;
                e.ty().is_int() && (digits >= 38 || fhi >= 10i128.pow(digits) || flo <= -(10i128.pow(digits)))
            }
            _ => false,
        };
        if any_node(xo, &fallible_try_cast_dec) && !has_try(xs) {
            return "try_cast-unwrapped-in-comparison/fallible-cast-to-decimal".into();
        }
        let fallible_try_cast_ts = |n: &X| match n {
            X::Cast { e, to: Ty::Ts(u2), try_: true } => matches!(e.ty(), Ty::Date32 | Ty::Date64) || matches!(e.ty(), Ty::Ts(u1) if u1 < *u2),
            _ => false,
        };
        if any_node(xo, &fallible_try_cast_ts) && !has_try(xs) {
            return "try_cast-unwrapped-in-comparison/fallible-cast-to-timestamp".into();
        }
        let has_cast = |x: &X| any_node(x, &|n| matches!(n, X::Cast { .. }));
        // CAST / TRY_CAST of a decimal column to an integer or to fewer fractional digits is many-to-one,
        // yet unwrap_cast moves the cast to the literal
        let lossy_decimal = |n: &X| match n {
            X::Cast { e, to, .. } => match (e.ty(), to) {
                (Ty::Dec { .. }, Ty::Int { .. }) => true,
                (Ty::Dec { s: s1, .. }, Ty::Dec { s: s2, .. }) => *s2 < s1,
                _ => false,
            },
            _ => false,
        };
        if any_node(xo, &lossy_decimal) && !has_cast(xs) {
            return "cast-unwrapped-in-comparison/lossy-decimal-cast".into();
        }
        // CAST / TRY_CAST of a timestamp column to a finer unit: the literal is truncated to the column's
        // unit (documented in casts.rs), and TRY_CAST's overflow-to-NULL is lost
        let ts_finer = |n: &X| match n {
            X::Cast { e, to: Ty::Ts(u2), .. } => matches!(e.ty(), Ty::Ts(u1) if u1 < *u2),
            _ => false,
        };
        if any_node(xo, &ts_finer) && !has_cast(xs) {
            return "cast-unwrapped-in-comparison/timestamp-to-finer-unit".into();
        }
        // AND / OR of two IN lists over the same expression is folded by set algebra on the items, which
        // ignores that the result is NULL (not FALSE / TRUE) when the expression or an item is NULL
        let inlist_pair = |n: &X| match n {
            X::Bin { op: BinOp::And | BinOp::Or, l, r } => match (l.as_ref(), r.as_ref()) {
                (X::InList { e: e1, .. }, X::InList { e: e2, .. }) => e1 == e2,
                _ => false,
            },
            _ => false,
        };
        if null_vs_bool && any_node(xo, &inlist_pair) {
            return "inlist-set-algebra/null-result-folded-to-boolean".into();
        }
        // x OR y OR x  =>  y OR x: the duplicate is dropped at its FIRST position, so an operand that the original
        // short-circuited away is now evaluated first and its error surfaces
        fn chain<'a>(x: &'a X, op: BinOp, out: &mut Vec<&'a X>) {
            match x {
                X::Bin { op: o, l, r } if *o == op => {
                    chain(l, op, out);
                    chain(r, op, out);
                }
                _ => out.push(x),
            }
        }
        let dup_in_chain = |n: &X| match n {
            X::Bin { op: op @ (BinOp::Or | BinOp::And), .. } => {
                let mut items = vec![];
                chain(n, *op, &mut items);
                items.iter().enumerate().any(|(i, a)| items[i + 1..].iter().any(|b| a == b))
            }
            _ => false,
        };
        if err_introduced && any_node(xo, &dup_in_chain) {
            return "duplicate-operand-of-and-or-dropped-at-its-first-position/error-no-longer-short-circuited".into();
        }
    }
    format!("{} => {}", shape(orig), shape(simp))
}

pub fn shape(s: &str) -> String {
    let mut out = String::new();
    let b: Vec<char> = s.chars().collect();
    let mut i = 0;
    while i < b.len() {
        let c = b[i];
        if c.is_ascii_digit() && (i == 0 || !(b[i - 1].is_ascii_alphanumeric() || b[i - 1] == '_')) {
            while i < b.len() && b[i].is_ascii_digit() {
                i += 1;
            }
            out.push('#');
            continue;
        }
        if c == '-' && i + 1 < b.len() && b[i + 1].is_ascii_digit() {
            i += 1;
            continue;
        }
        out.push(c);
        i += 1;
    }
    for op in [" <= ", " >= ", " != ", " < ", " > ", " = "] {
        out = out.replace(op, " <cmp> ");
    }
    out
}

pub fn run_one(duo: &mut Duo, p: &Program, t: &mut Tally) {
    t.programs += 1;
    let fam = t.families.entry(p.family.clone()).or_insert((0, 0));
    fam.0 += 1;
    let schema = schema_for(&p.cols);
    let e: Expr = lx::x_to_expr(&p.x);
    let ctx = SimplifyContext::builder().with_schema(schema.clone()).build();
    let mut simp = ExprSimplifier::new(ctx);
    if p.canonicalize {
        simp = simp.with_canonicalize(true);
    }
    let coerced = match simp.coerce(e.clone(), &schema) {
        Ok(c) => c,
        Err(_) => {
            t.ill_typed += 1;
            return;
        }
    };
    let mut gs = vec![];
    for g in &p.guarantees {
        match guar_to_interval(g) {
            Some(iv) => gs.push((datafusion::logical_expr::col(g.col.as_str()), iv)),
            None => {
                t.ill_typed += 1;
                return;
            }
        }
    }
    if !gs.is_empty() {
        simp = simp.with_guarantees(gs);
    }
    let r = std::panic::catch_unwind(std::panic::AssertUnwindSafe(|| simp.simplify(coerced.clone())));
    let simplified = match r {
        Ok(Ok(s)) => s,
        Ok(Err(e)) => {
            if t.simplifier_errors.len() < 20 {
                t.simplifier_errors.push(format!("{coerced}: {e}"));
            }
            return;
        }
        Err(_) => {
            t.inconclusive.push(format!("simplifier panicked on {coerced}"));
            return;
        }
    };
    if simplified == coerced {
        t.unchanged += 1;
        run_physical(duo, p, &coerced, &schema, t);
        return;
    }
    t.changed += 1;
    let guarantees = p.guarantees.clone();
    let mk = move |enc: &mut Enc| -> R<Vec<String>> {
        let mut v = vec![];
        for g in &guarantees {
            v.push(guar_assume(enc, g)?);
        }
        Ok(v)
    };
    let gdesc: Vec<String> = p
        .guarantees
        .iter()
        .map(|g| format!("{} {} [{:?},{:?}]", g.col, ["NULL", "MAYBE-NULL", "NOT-NULL"][g.kind as usize], g.lo, g.hi))
        .collect();
    match check_pair(duo, &coerced, &simplified, &schema, &mk) {
        Outcome::Equivalent => {
            t.equivalent += 1;
            t.families.get_mut(&p.family).unwrap().1 += 1;
            t.distinct_rewrites.insert(format!("{coerced} => {simplified}"));
            if t.samples.len() < 12 && (t.equivalent % 97 == 1) {
                t.samples.push(json!({"family": p.family, "original": coerced.to_string(), "simplified": simplified.to_string(),
                    "guarantees": gdesc, "verdict": "unsat (equivalent on every row where the original does not err)"}));
            }
        }
        Outcome::Trivial(_) => t.trivial += 1,
        Outcome::Unsupported(why) => {
            let key: String = why.chars().take(60).collect();
            *t.unsupported.entry(key).or_insert(0) += 1;
        }
        Outcome::Inconclusive(why) => {
            if t.inconclusive.len() < 50 {
                t.inconclusive.push(format!("[{}] {} => {} :: {}", p.family, coerced, simplified, why));
            }
        }
        Outcome::Violation(mut v) => {
            v["family"] = json!(p.family);
            v["guarantees"] = json!(gdesc);
            let xo = lx::expr_to_x(&coerced, &schema).ok();
            let xs = lx::expr_to_x(&simplified, &schema).ok();
            let nvb = null_mismatch(&v);
            let erri = v["rewritten_value"].as_str().map(|s| s.starts_with("ERROR")).unwrap_or(false);
            v["signature"] = json!(signature(xo.as_ref(), xs.as_ref(), &coerced.to_string(), &simplified.to_string(), nvb, erri));
            t.violations.push(v);
        }
    }
    run_physical(duo, p, &coerced, &schema, t);
}

/// second half of the property: the physical-expression simplifier
fn run_physical(duo: &mut Duo, p: &Program, coerced: &Expr, schema: &Arc<DFSchema>, t: &mut Tally) {
    use datafusion::logical_expr::execution_props::ExecutionProps;
    use datafusion::logical_expr::physical_planning_context::PhysicalPlanningContext;
    use datafusion::physical_expr::simplifier::PhysicalExprSimplifier;
    if !p.guarantees.is_empty() {
        return;
    }
    let props = ExecutionProps::new();
    let phys = match datafusion::physical_expr::create_physical_expr(coerced, schema, &props, &PhysicalPlanningContext::default()) {
        Ok(p) => p,
        Err(_) => return,
    };
    let aschema = schema.as_arrow().clone();
    let r = std::panic::catch_unwind(std::panic::AssertUnwindSafe(|| PhysicalExprSimplifier::new(&aschema).simplify(phys.clone())));
    let psimp = match r {
        Ok(Ok(s)) => s,
        Ok(Err(e)) => {
            if t.simplifier_errors.len() < 20 {
                t.simplifier_errors.push(format!("physical {phys}: {e}"));
            }
            return;
        }
        Err(_) => {
            t.inconclusive.push(format!("physical simplifier panicked on {phys}"));
            return;
        }
    };
    t.phys_programs += 1;
    if psimp.to_string() == phys.to_string() {
        return;
    }
    t.phys_changed += 1;
    let (xo, xs) = match (crate::px::phys_to_x(&phys, &aschema), crate::px::phys_to_x(&psimp, &aschema)) {
        (Ok(a), Ok(b)) => (a, b),
        (Err(u), _) | (_, Err(u)) => {
            let key: String = format!("physical: {}", u.0).chars().take(60).collect();
            *t.unsupported.entry(key).or_insert(0) += 1;
            return;
        }
    };
    // data type preserved?
    if let (Ok(a), Ok(b)) = (phys.data_type(&aschema), psimp.data_type(&aschema)) {
        if a != b {
            t.violations.push(json!({"kind": "data type changed (physical)", "original": phys.to_string(), "rewritten": psimp.to_string(),
                "family": p.family, "signature": format!("physical-type: {} => {}", shape(&phys.to_string()), shape(&psimp.to_string())), "row": {}}));
            return;
        }
    }
    let mk = |_: &mut Enc| -> R<Vec<String>> { Ok(vec![]) };
    match crate::tvq::check_x_pair(duo, &xo, &xs, &mk, &|row| crate::px::replay_phys(&phys, &psimp, &aschema, row)) {
        Outcome::Equivalent => {
            t.phys_equivalent += 1;
            t.distinct_rewrites.insert(format!("physical: {phys} => {psimp}"));
            if t.samples.len() < 16 && t.phys_equivalent % 151 == 1 {
                t.samples.push(json!({"family": format!("physical/{}", p.family), "original": phys.to_string(), "simplified": psimp.to_string(),
                    "verdict": "unsat (equivalent on every row where the original does not err)"}));
            }
        }
        Outcome::Trivial(_) => t.trivial += 1,
        Outcome::Unsupported(why) => {
            let key: String = format!("physical: {why}").chars().take(60).collect();
            *t.unsupported.entry(key).or_insert(0) += 1;
        }
        Outcome::Inconclusive(why) => {
            if t.inconclusive.len() < 50 {
                t.inconclusive.push(format!("[physical/{}] {} => {} :: {}", p.family, phys, psimp, why));
            }
        }
        Outcome::Violation(mut v) => {
            v["family"] = json!(format!("physical/{}", p.family));
            let nvb = null_mismatch(&v);
            let erri = v["rewritten_value"].as_str().map(|s| s.starts_with("ERROR")).unwrap_or(false);
            v["signature"] = json!(format!("physical: {}", signature(Some(&xo), Some(&xs), &phys.to_string(), &psimp.to_string(), nvb, erri)));
            t.violations.push(v);
        }
    }
}

pub fn run(thorough: bool, seed: u64, threads: usize) -> Value {
    let t0 = std::time::Instant::now();
    let progs = programs(thorough, seed);
    let timeout_ms = if thorough { 60000 } else { 20000 };
    // grid validation of the encoder first
    let mut duo0 = Duo::new(timeout_ms, false);
    let grid = crate::grid::validate(&mut duo0, thorough);
    drop(duo0);
    let chunks: Vec<Vec<Program>> = {
        let mut c: Vec<Vec<Program>> = (0..threads).map(|_| vec![]).collect();
        for (i, p) in progs.into_iter().enumerate() {
            c[i % threads].push(p);
        }
        c
    };
    let mut total = Tally::new();
    let mut queries = 0u64;
    let mut solver_secs = 0.0;
    let mut errors = 0u64;
    let mut disagreements = 0u64;
    std::thread::scope(|s| {
        let hs: Vec<_> = chunks
            .iter()
            .map(|chunk| {
                s.spawn(move || {
                    let mut duo = Duo::new(timeout_ms, true);
                    let mut t = Tally::new();
                    for p in chunk {
                        let t1 = std::time::Instant::now();
                        let r = std::panic::catch_unwind(std::panic::AssertUnwindSafe(|| run_one(&mut duo, p, &mut t)));
                        if r.is_err() {
                            // a panic inside DataFusion (e.g. Display of an extreme Date64 literal) or the driver:
                            // the solver session may be mid-query, start a fresh one
                            *t.unsupported.entry("panic while processing the program (datafusion Display/eval or driver)".into()).or_insert(0) += 1;
                            duo = Duo::new(timeout_ms, true);
                        }
                        *t.fam_secs.entry(p.family.clone()).or_insert(0.0) += t1.elapsed().as_secs_f64();
                    }
                    (t, duo.queries(), duo.secs(), duo.errors(), duo.disagreements)
                })
            })
            .collect();
        for h in hs {
            let (t, q, ss, e, d) = h.join().unwrap();
            total.merge(t);
            queries += q;
            solver_secs += ss;
            errors += e;
            disagreements += d;
        }
    });
    json!({
        "programs": total.programs, "changed": total.changed, "equivalent": total.equivalent, "trivial": total.trivial,
        "unchanged": total.unchanged, "ill_typed": total.ill_typed, "simplifier_errors": total.simplifier_errors,
        "unsupported": total.unsupported, "inconclusive": total.inconclusive, "violations": total.violations,
        "samples": total.samples, "families": total.families.iter().map(|(k, v)| (k.clone(), json!({"programs": v.0, "proved_equivalent": v.1, "cpu_s": total.fam_secs.get(k).copied().unwrap_or(0.0)}))).collect::<BTreeMap<_, _>>(),
        "distinct_rewrites": total.distinct_rewrites.len(),
        "physical": {"programs": total.phys_programs, "changed": total.phys_changed, "equivalent": total.phys_equivalent},
        "grid": {"templates": grid.templates, "points": grid.points, "mismatches": grid.mismatches, "unsupported": grid.unsupported},
        "solver": {"queries": queries, "secs": solver_secs, "errors": errors, "disagreements": disagreements, "solvers": ["z3 5.1.0 (z3-new)", "z3 4.8.12"]},
        "wall_s": t0.elapsed().as_secs_f64(),
    })
}
