//! The translation-validation query for expressions: is there a row on which the original
//! evaluates without error and the rewritten expression errs or yields another value?
//! `sat` models are replayed through the real evaluator before they count.

use crate::enc::{Enc, V};
use crate::ir::*;
use crate::lx;
use crate::smt::{parse_bv, Duo, Verdict};
use datafusion::common::{DFSchema, ScalarValue};
use datafusion::logical_expr::Expr;
use serde_json::{json, Value};

#[derive(Debug)]
pub enum Outcome {
    Equivalent,
    /// the original errs on every row (nothing to compare)
    Trivial(String),
    Unsupported(String),
    Inconclusive(String),
    Violation(Value),
}

pub fn row_from_model(enc: &Enc, vals: &[(String, String)]) -> Vec<(String, Ty, bool, Option<i128>)> {
    let mut out = vec![];
    for c in &enc.col_order {
        let (n, v, ty, nullable) = &enc.cols[c];
        let isnull = vals.iter().find(|(k, _)| k == n).map(|(_, x)| x == "true").unwrap_or(false);
        let bits = vals.iter().find(|(k, _)| k == v).and_then(|(_, x)| parse_bv(x)).unwrap_or(0);
        let val = if isnull || matches!(ty, Ty::Null) { None } else { Some(lx::bits_to_i128(ty, bits)) };
        out.push((c.clone(), ty.clone(), *nullable, val));
    }
    out
}

pub fn row_json(row: &[(String, Ty, bool, Option<i128>)]) -> Value {
    Value::Object(
        row.iter()
            .map(|(n, t, _, v)| (n.clone(), json!({"type": t.to_string(), "value": v.map(|x| x.to_string())})))
            .collect(),
    )
}

fn scalar_str(r: &Result<ScalarValue, String>) -> String {
    match r {
        Ok(v) => format!("{v:?}"),
        Err(e) => format!("ERROR({})", e.chars().take(160).collect::<String>()),
    }
}

/// `mk_assume`: extra Bool terms over the encoder's column cells (guarantees), built by the caller
/// after the columns have been declared.
pub fn check_pair(
    duo: &mut Duo,
    orig: &Expr,
    simp: &Expr,
    schema: &DFSchema,
    mk_assume: &dyn Fn(&mut Enc) -> R<Vec<String>>,
) -> Outcome {
    use datafusion::logical_expr::ExprSchemable;
    let xo = match lx::expr_to_x(orig, schema) {
        Ok(x) => x,
        Err(u) => return Outcome::Unsupported(format!("original: {}", u.0)),
    };
    let xs = match lx::expr_to_x(simp, schema) {
        Ok(x) => x,
        Err(u) => return Outcome::Unsupported(format!("rewritten: {}", u.0)),
    };
    // data type must be preserved (concrete side condition)
    let (to, ts) = (orig.get_type(schema), simp.get_type(schema));
    if let (Ok(to), Ok(ts)) = (&to, &ts) {
        if to != ts {
            return Outcome::Violation(json!({
                "kind": "data type changed", "original": orig.to_string(), "rewritten": simp.to_string(),
                "original_type": to.to_string(), "rewritten_type": ts.to_string(), "row": {}}));
        }
    }
    check_x_pair(duo, &xo, &xs, mk_assume, &|row| replay_pair(orig, simp, schema, row))
}

/// The query itself, on IR level: exists row. !may_err(o) && (must_err(s) || value differs)
pub fn check_x_pair(
    duo: &mut Duo,
    xo: &X,
    xs: &X,
    mk_assume: &dyn Fn(&mut Enc) -> R<Vec<String>>,
    replay: &dyn Fn(&[(String, Ty, bool, Option<i128>)]) -> Outcome,
) -> Outcome {
    let mut enc = Enc::new("x");
    let mut cols = vec![];
    xo.columns(&mut cols);
    xs.columns(&mut cols);
    for (n, t, nl) in &cols {
        enc.declare_col(n, t, *nl);
    }
    let o: V = match enc.expr(xo) {
        Ok(v) => v,
        Err(u) => return Outcome::Unsupported(format!("original: {}", u.0)),
    };
    let s: V = match enc.expr(xs) {
        Ok(v) => v,
        Err(u) => return Outcome::Unsupported(format!("rewritten: {}", u.0)),
    };
    if o.ty != s.ty {
        return Outcome::Unsupported(format!("encoder types differ: {} vs {}", o.ty, s.ty));
    }
    let assume = match mk_assume(&mut enc) {
        Ok(a) => a,
        Err(u) => return Outcome::Unsupported(format!("guarantee: {}", u.0)),
    };
    duo.push();
    duo.send(&enc.preamble());
    for a in &assume {
        duo.send(&format!("(assert {a})\n"));
    }
    duo.send(&format!("(assert (not {}))\n", o.em));
    let v0 = duo.check();
    let out = match v0 {
        Verdict::Unsat => Outcome::Trivial("the original errs on every admissible row".into()),
        Verdict::Unknown => Outcome::Inconclusive("solver undecided on the precondition".into()),
        Verdict::Sat => {
            duo.send(&format!("(assert (or {} (not {})))\n", s.eu, Enc::same_value(&o, &s)));
            match duo.check() {
                Verdict::Unsat => Outcome::Equivalent,
                Verdict::Unknown => Outcome::Inconclusive("solver undecided (timeout, error or disagreement)".into()),
                Verdict::Sat => {
                    let vals = duo.get_values(&enc.model_names());
                    let row = row_from_model(&enc, &vals);
                    replay(&row)
                }
            }
        }
    };
    duo.pop();
    out
}

pub fn replay_pair(orig: &Expr, simp: &Expr, _schema: &DFSchema, row: &[(String, Ty, bool, Option<i128>)]) -> Outcome {
    let cols: Vec<(String, Ty, bool)> = row.iter().map(|(n, t, nl, _)| (n.clone(), t.clone(), *nl)).collect();
    let vals: Vec<Option<i128>> = row.iter().map(|r| r.3).collect();
    let (aschema, batch) = lx::one_row_batch(&cols, &vals);
    let dfs = DFSchema::try_from(aschema.as_ref().clone()).unwrap();
    let ro = lx::real_eval(orig, &dfs, &batch);
    let rs = lx::real_eval(simp, &dfs, &batch);
    let differs = match (&ro, &rs) {
        (Ok(a), Ok(b)) => !lx::same_scalar(a, b),
        (Ok(_), Err(_)) => true,
        (Err(_), _) => false,
    };
    let info = json!({
        "original": orig.to_string(), "rewritten": simp.to_string(), "row": row_json(row),
        "original_value": scalar_str(&ro), "rewritten_value": scalar_str(&rs)});
    if differs {
        Outcome::Violation(info)
    } else {
        Outcome::Inconclusive(format!("solver model did not reproduce in the real evaluator (encoder and engine disagree): {info}"))
    }
}
