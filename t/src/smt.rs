//! Thin wrapper around SMT solver processes (`z3 -in`), with push/pop batching.
//! Any `(error` line makes the answer `Unknown` (inconclusive), never `Unsat`.

use std::io::{BufRead, BufReader, Write};
use std::process::{Child, ChildStdin, ChildStdout, Command, Stdio};
use std::time::Instant;

#[derive(Debug, Clone, Copy, PartialEq, Eq)]
pub enum Verdict {
    Sat,
    Unsat,
    Unknown,
}

pub struct Solver {
    pub name: String,
    child: Child,
    stdin: ChildStdin,
    stdout: BufReader<ChildStdout>,
    pub queries: u64,
    pub secs: f64,
    pub errors: u64,
    pub log: Option<std::fs::File>,
}

impl Solver {
    pub fn new(bin: &str, timeout_ms: u64) -> Solver {
        let mut child = Command::new(bin)
            .arg("-in")
            .stdin(Stdio::piped())
            .stdout(Stdio::piped())
            .stderr(Stdio::null())
            .spawn()
            .unwrap_or_else(|e| panic!("cannot start solver {bin}: {e}"));
        let stdin = child.stdin.take().unwrap();
        let stdout = BufReader::new(child.stdout.take().unwrap());
        let mut s = Solver {
            name: bin.to_string(),
            child,
            stdin,
            stdout,
            queries: 0,
            secs: 0.0,
            errors: 0,
            log: None,
        };
        s.send(&format!(
            "(set-option :timeout {timeout_ms})\n(set-option :produce-models true)\n(set-logic ALL)\n"
        ));
        s
    }

    pub fn send(&mut self, text: &str) {
        if let Some(f) = self.log.as_mut() {
            let _ = f.write_all(text.as_bytes());
        }
        self.stdin.write_all(text.as_bytes()).expect("solver stdin");
    }

    fn read_line(&mut self) -> String {
        let mut l = String::new();
        self.stdout.read_line(&mut l).expect("solver stdout");
        l
    }

    /// read one s-expression (balanced parentheses) or one atom line
    fn read_sexp(&mut self) -> String {
        let mut out = String::new();
        let mut depth: i64 = 0;
        let mut started = false;
        loop {
            let l = self.read_line();
            if l.is_empty() {
                break;
            }
            for c in l.chars() {
                if c == '(' {
                    depth += 1;
                    started = true;
                } else if c == ')' {
                    depth -= 1;
                }
            }
            out.push_str(&l);
            if (started && depth <= 0) || (!started && !l.trim().is_empty()) {
                break;
            }
        }
        out
    }

    pub fn push(&mut self) {
        self.send("(push 1)\n");
    }
    pub fn pop(&mut self) {
        self.send("(pop 1)\n");
    }

    pub fn check(&mut self) -> Verdict {
        let t0 = Instant::now();
        self.send("(check-sat)\n");
        self.stdin.flush().ok();
        let mut verdict = Verdict::Unknown;
        loop {
            let l = self.read_line();
            let t = l.trim();
            if t.is_empty() {
                if l.is_empty() {
                    break; // EOF
                }
                continue;
            }
            if t == "sat" {
                verdict = Verdict::Sat;
                break;
            } else if t == "unsat" {
                verdict = Verdict::Unsat;
                break;
            } else if t == "unknown" || t == "timeout" {
                break;
            } else if t.starts_with("(error") {
                self.errors += 1;
                // keep reading: the answer to check-sat still follows, but it is not trusted
                let mut rest = t.to_string();
                while rest.matches('(').count() > rest.matches(')').count() {
                    rest.push_str(&self.read_line());
                }
                eprintln!("solver error: {rest}");
                // drain the check-sat answer
                let _ = self.read_line();
                verdict = Verdict::Unknown;
                break;
            }
        }
        self.queries += 1;
        self.secs += t0.elapsed().as_secs_f64();
        verdict
    }

    /// (get-value (a b c)) -> [(name, value-text)]
    pub fn get_values(&mut self, names: &[String]) -> Vec<(String, String)> {
        if names.is_empty() {
            return vec![];
        }
        self.send(&format!("(get-value ({}))\n", names.join(" ")));
        self.stdin.flush().ok();
        let s = self.read_sexp();
        parse_value_pairs(&s)
    }
}

impl Drop for Solver {
    fn drop(&mut self) {
        let _ = self.stdin.write_all(b"(exit)\n");
        let _ = self.child.kill();
        let _ = self.child.wait();
    }
}

/// parse "((a #x01) (b true) (c (- 5)))"
pub fn parse_value_pairs(s: &str) -> Vec<(String, String)> {
    let mut out = vec![];
    let b: Vec<char> = s.chars().collect();
    let mut i = 0;
    // skip to first '('
    while i < b.len() && b[i] != '(' {
        i += 1;
    }
    i += 1;
    while i < b.len() {
        while i < b.len() && b[i].is_whitespace() {
            i += 1;
        }
        if i >= b.len() || b[i] == ')' {
            break;
        }
        if b[i] != '(' {
            i += 1;
            continue;
        }
        // inside a pair
        i += 1;
        let st = i;
        while i < b.len() && !b[i].is_whitespace() {
            i += 1;
        }
        let name: String = b[st..i].iter().collect();
        while i < b.len() && b[i].is_whitespace() {
            i += 1;
        }
        let vs = i;
        let mut depth = 0;
        while i < b.len() {
            if b[i] == '(' {
                depth += 1;
            } else if b[i] == ')' {
                if depth == 0 {
                    break;
                }
                depth -= 1;
            }
            i += 1;
        }
        let val: String = b[vs..i].iter().collect();
        out.push((name, val.trim().to_string()));
        i += 1;
    }
    out
}

/// "#x00ff" / "#b0101" / "true" / "false" -> unsigned integer
pub fn parse_bv(v: &str) -> Option<u128> {
    let v = v.trim();
    if let Some(h) = v.strip_prefix("#x") {
        u128::from_str_radix(h, 16).ok()
    } else if let Some(b) = v.strip_prefix("#b") {
        u128::from_str_radix(b, 2).ok()
    } else if v == "true" {
        Some(1)
    } else if v == "false" {
        Some(0)
    } else {
        None
    }
}

/// Two solvers that must agree.  `check` returns Unknown when they disagree or either errs.
pub struct Duo {
    pub a: Solver,
    pub b: Option<Solver>,
    pub disagreements: u64,
    /// which solver produced the last `Sat` (its model is the one read back)
    last_sat_b: bool,
}

impl Duo {
    pub fn new(timeout_ms: u64, two: bool) -> Duo {
        let a = Solver::new("z3-new", timeout_ms);
        let b = if two { Some(Solver::new("/usr/bin/z3", timeout_ms)) } else { None };
        Duo { a, b, disagreements: 0, last_sat_b: false }
    }
    pub fn send(&mut self, t: &str) {
        self.a.send(t);
        if let Some(b) = self.b.as_mut() {
            b.send(t);
        }
    }
    pub fn push(&mut self) {
        self.send("(push 1)\n");
    }
    pub fn pop(&mut self) {
        self.send("(pop 1)\n");
    }
    pub fn check(&mut self) -> Verdict {
        let va = self.a.check();
        self.last_sat_b = false;
        if let Some(b) = self.b.as_mut() {
            let vb = b.check();
            if va != vb {
                if va != Verdict::Unknown && vb != Verdict::Unknown {
                    self.disagreements += 1;
                    eprintln!("SOLVER DISAGREEMENT: {} says {:?}, {} says {:?}", self.a.name, va, b.name, vb);
                    return Verdict::Unknown;
                }
                // one of them timed out: take the definite answer of the other, but only for `sat`
                // (which is replayed anyway); an `unsat` needs both
                let definite = if va == Verdict::Unknown { vb } else { va };
                self.last_sat_b = va == Verdict::Unknown;
                return if definite == Verdict::Sat { Verdict::Sat } else { Verdict::Unknown };
            }
        }
        va
    }
    /// values from the first solver (only valid right after a `Sat` of that solver)
    pub fn get_values(&mut self, names: &[String]) -> Vec<(String, String)> {
        if self.last_sat_b {
            return self.b.as_mut().unwrap().get_values(names);
        }
        self.a.get_values(names)
    }
    pub fn queries(&self) -> u64 {
        self.a.queries + self.b.as_ref().map(|b| b.queries).unwrap_or(0)
    }
    pub fn secs(&self) -> f64 {
        self.a.secs + self.b.as_ref().map(|b| b.secs).unwrap_or(0.0)
    }
    pub fn errors(&self) -> u64 {
        self.a.errors + self.b.as_ref().map(|b| b.errors).unwrap_or(0)
    }
}
