//! C44 (expression half): the REAL `DefaultPhysicalExprAdapter::rewrite` is run on predicates and bare column
//! references written against the table schema, for file schemas that reorder, drop, add or re-type columns.
//!
//! Specification side (built here, independent of the adapter): the same expression with every table column
//! replaced by what the property says the adapted row holds - `CAST(file column AS table type)` for a same-named
//! file column, NULL for a missing one.  Rewritten side: `phys_to_x` of the adapter's output over the FILE schema.
//! Query (tvq::check_x_pair): exists a file row on which the specification evaluates without error and the
//! rewritten expression errs or yields another value.  Every column cell of the file row is a solver variable.
//! A model is replayed with the real evaluator: the file row is adapted by the arrow cast kernel (not by the adapter)
//! and the table-schema expression evaluated on it, the rewritten expression on the file row.

use crate::c04::schema_for;
use crate::enc::Enc;
use crate::gen::{self, bin, col, lit, not, null};
use crate::ir::*;
use crate::lx;
use crate::smt::Duo;
use crate::tvq::{check_x_pair, row_json, Outcome};
use datafusion::arrow::array::{new_null_array, ArrayRef};
use datafusion::arrow::compute::{cast_with_options, CastOptions};
use datafusion::arrow::datatypes::{Field, Schema};
use datafusion::arrow::record_batch::{RecordBatch, RecordBatchOptions};
use datafusion::logical_expr::execution_props::ExecutionProps;
use datafusion::logical_expr::physical_planning_context::PhysicalPlanningContext;
use datafusion::physical_expr::PhysicalExpr;
use datafusion::physical_expr_adapter::{DefaultPhysicalExprAdapter, PhysicalExprAdapter};
use serde_json::{json, Value};
use std::collections::{BTreeMap, BTreeSet};
use std::sync::Arc;

type Cols = Vec<(String, Ty, bool)>;

struct Case {
    table: Cols,
    file: Cols,
    label: String,
}

/// table schema a,b,c : T, p : Boolean; file schemas derived from it
fn cases(thorough: bool) -> Vec<Case> {
    let tys: Vec<Ty> = if thorough {
        vec![gen::i(32, true), gen::i(64, true), gen::i(16, true), gen::i(8, false), gen::i(32, false), gen::i(8, true), gen::i(64, false)]
    } else {
        vec![gen::i(32, true), gen::i(64, true), gen::i(8, false)]
    };
    let mut out = vec![];
    for t in &tys {
        let table: Cols = vec![("a".into(), t.clone(), true), ("b".into(), t.clone(), true), ("c".into(), t.clone(), true), ("p".into(), Ty::Bool, true)];
        let narrower = if t.bits() > 8 { gen::i(t.bits() / 2, t.signed()) } else { t.clone() };
        let wider = if t.bits() < 64 { gen::i(t.bits() * 2, t.signed()) } else { t.clone() };
        let flipped = gen::i(t.bits(), !t.signed());
        let small_u = gen::i(8, false);
        let f = |n: &str, ty: &Ty| (n.to_string(), ty.clone(), true);
        let z = ("z".to_string(), gen::i(64, true), true);
        let pb = ("p".to_string(), Ty::Bool, true);
        let variants: Vec<(&str, Cols)> = vec![
            ("reordered", vec![f("c", t), pb.clone(), f("a", t), f("b", t)]),
            ("missing b", vec![f("a", t), f("c", t), pb.clone()]),
            ("extra first column", vec![z.clone(), f("a", t), f("b", t), f("c", t), pb.clone()]),
            ("narrower a, wider c", vec![f("a", &narrower), f("b", t), f("c", &wider), pb.clone()]),
            ("sign-flipped b, reordered", vec![f("b", &flipped), f("a", t), pb.clone(), f("c", t)]),
            ("u8 a, missing p, extra column in the middle", vec![f("c", t), z.clone(), f("a", &small_u)]),
            ("wider a and b, missing c", vec![pb.clone(), f("b", &wider), f("a", &wider)]),
            ("only an unrelated column", vec![z.clone()]),
            ("swapped names keep their types (a and b exchanged positions, a narrower)", vec![f("b", t), f("a", &narrower), f("c", t), pb.clone()]),
        ];
        for (label, file) in variants {
            out.push(Case { table: table.clone(), file, label: format!("{t}: {label}") });
        }
    }
    out
}

fn programs(t: &Ty, seed: u64, thorough: bool) -> Vec<X> {
    let (a, b, c, p) = (col("a", t), col("b", t), col("c", t), col("p", &Ty::Bool));
    let l = |v: i128| lit(t, v);
    let mut out = vec![a.clone(), b.clone(), c.clone(), p.clone()];
    out.extend(gen::atoms(t));
    let cmp = |op, x: &X, y: &X| bin(op, x.clone(), y.clone());
    out.push(bin(BinOp::And, cmp(BinOp::Gt, &a, &l(1)), cmp(BinOp::Lt, &b, &l(3))));
    out.push(bin(BinOp::Or, cmp(BinOp::Eq, &a, &b), X::Is(IsOp::Null, Box::new(c.clone()))));
    out.push(not(cmp(BinOp::LtEq, &a, &c)));
    out.push(cmp(BinOp::Gt, &bin(BinOp::Plus, a.clone(), b.clone()), &l(2)));
    out.push(cmp(BinOp::Eq, &bin(BinOp::Minus, c.clone(), a.clone()), &b));
    out.push(bin(BinOp::Eq, X::Case { operand: None, whens: vec![(cmp(BinOp::Gt, &a, &l(1)), b.clone())], els: Some(Box::new(c.clone())), ty: t.clone() }, l(2)));
    out.push(X::InList { e: Box::new(a.clone()), list: vec![l(1), b.clone(), null(t)], negated: false });
    out.push(X::InList { e: Box::new(c.clone()), list: vec![l(0), l(3)], negated: true });
    out.push(bin(BinOp::And, p.clone(), cmp(BinOp::Gt, &a, &l(0))));
    out.push(bin(BinOp::Or, X::Is(IsOp::Null, Box::new(p.clone())), cmp(BinOp::NotEq, &a, &c)));
    out.push(X::Is(IsOp::NotTrue, Box::new(cmp(BinOp::IsDistinctFrom, &b, &c))));
    out.push(cmp(BinOp::IsNotDistinctFrom, &a, &null(t)));
    let mut g = gen::Gen::new(seed ^ 0xC44, t.clone());
    g.int_cols = vec!["a".into(), "b".into(), "c".into()];
    g.bool_cols = vec!["p".into()];
    for _ in 0..(if thorough { 160 } else { 50 }) {
        out.push(g.bool_expr(3));
    }
    out
}

/// the property's reading of the adapted row, as an expression over the FILE columns
fn spec(x: &X, file: &Cols) -> X {
    let r = |e: &X| Box::new(spec(e, file));
    match x {
        X::Col { name, ty, .. } => match file.iter().find(|f| &f.0 == name) {
            None => X::Lit { ty: ty.clone(), v: None },
            Some((n, fty, nl)) => {
                let c = X::Col { name: n.clone(), ty: fty.clone(), nullable: *nl };
                if fty == ty {
                    c
                } else {
                    X::Cast { e: Box::new(c), to: ty.clone(), try_: false }
                }
            }
        },
        X::Lit { .. } => x.clone(),
        X::Bin { op, l, r: rr } => X::Bin { op: *op, l: r(l), r: r(rr) },
        X::Not(e) => X::Not(r(e)),
        X::Neg(e) => X::Neg(r(e)),
        X::Is(o, e) => X::Is(*o, r(e)),
        X::InList { e, list, negated } => X::InList { e: r(e), list: list.iter().map(|i| spec(i, file)).collect(), negated: *negated },
        X::Case { operand, whens, els, ty } => X::Case {
            operand: operand.as_ref().map(|o| r(o)),
            whens: whens.iter().map(|(w, t)| (spec(w, file), spec(t, file))).collect(),
            els: els.as_ref().map(|e| r(e)),
            ty: ty.clone(),
        },
        X::Cast { e, to, try_ } => X::Cast { e: r(e), to: to.clone(), try_: *try_ },
        X::Func { name, args, ty } => X::Func { name: name.clone(), args: args.iter().map(|i| spec(i, file)).collect(), ty: ty.clone() },
    }
}

fn arrow_schema(cols: &Cols) -> Arc<Schema> {
    Arc::new(Schema::new(cols.iter().map(|(n, t, nl)| Field::new(n, lx::ty_to_dt(t), *nl)).collect::<Vec<_>>()))
}

/// replay: table expression on (file row adapted by the arrow cast kernel) vs rewritten expression on the file row
fn replay(orig: &Arc<dyn PhysicalExpr>, rew: &Arc<dyn PhysicalExpr>, case: &Case, row: &[(String, Ty, bool, Option<i128>)]) -> Outcome {
    let vals: Vec<Option<i128>> = case.file.iter().map(|f| row.iter().find(|r| r.0 == f.0).and_then(|r| r.3)).collect();
    let (_, fbatch) = lx::one_row_batch(&case.file, &vals);
    let tschema = arrow_schema(&case.table);
    let mut arrays: Vec<ArrayRef> = vec![];
    let mut adapt_err = None;
    for tf in tschema.fields() {
        match case.file.iter().position(|f| &f.0 == tf.name()) {
            None => arrays.push(new_null_array(tf.data_type(), 1)),
            Some(i) => match cast_with_options(fbatch.column(i), tf.data_type(), &CastOptions { safe: false, ..Default::default() }) {
                Ok(a) => arrays.push(a),
                Err(e) => {
                    adapt_err = Some(e.to_string());
                    arrays.push(new_null_array(tf.data_type(), 1));
                }
            },
        }
    }
    let info0 = json!({"original": orig.to_string(), "rewritten": rew.to_string(), "file_schema": format!("{:?}", case.file.iter().map(|f| format!("{}:{}", f.0, f.1)).collect::<Vec<_>>()),
        "case": case.label, "row": row_json(row)});
    if let Some(e) = adapt_err {
        return Outcome::Inconclusive(format!("model row cannot be adapted by the cast kernel ({e}) although the encoder says the specification does not err: {info0}"));
    }
    let tbatch = RecordBatch::try_new_with_options(tschema, arrays, &RecordBatchOptions::new().with_row_count(Some(1))).unwrap();
    let ro = lx::real_eval_phys(orig, &tbatch);
    let rs = lx::real_eval_phys(rew, &fbatch);
    let differs = match (&ro, &rs) {
        (Ok(a), Ok(b)) => !lx::same_scalar(a, b),
        (Ok(_), Err(_)) => true,
        (Err(_), _) => false,
    };
    let mut info = info0;
    info["original_value"] = json!(format!("{ro:?}"));
    info["rewritten_value"] = json!(format!("{rs:?}"));
    if differs {
        Outcome::Violation(info)
    } else {
        Outcome::Inconclusive(format!("solver model did not reproduce in the real evaluator (encoder and engine disagree): {info}"))
    }
}

struct T44 {
    programs: u64,
    changed: u64,
    proved: u64,
    trivial: u64,
    unchanged: u64,
    adapter_errors: Vec<String>,
    unsupported: BTreeMap<String, u64>,
    inconclusive: Vec<String>,
    violations: Vec<Value>,
    samples: Vec<Value>,
    families: BTreeMap<String, (u64, u64)>,
    distinct: BTreeSet<String>,
}

fn new_t() -> T44 {
    T44 { programs: 0, changed: 0, proved: 0, trivial: 0, unchanged: 0, adapter_errors: vec![], unsupported: BTreeMap::new(), inconclusive: vec![], violations: vec![], samples: vec![],
          families: BTreeMap::new(), distinct: BTreeSet::new() }
}

/// role of the failing program: which kind of schema difference the referenced columns have
fn signature(x: &X, case: &Case) -> String {
    let mut cols = vec![];
    x.columns(&mut cols);
    let mut kinds = BTreeSet::new();
    for (n, t, _) in &cols {
        match case.file.iter().position(|f| &f.0 == n) {
            None => {
                kinds.insert("missing column".to_string());
            }
            Some(i) => {
                let ti = case.table.iter().position(|f| &f.0 == n).unwrap_or(usize::MAX);
                if &case.file[i].1 != t {
                    kinds.insert(format!("retyped column ({} file -> {} table)", case.file[i].1, t));
                } else if i != ti {
                    kinds.insert("moved column".to_string());
                } else {
                    kinds.insert("unchanged column".to_string());
                }
            }
        }
    }
    format!("adapter: {}", kinds.into_iter().collect::<Vec<_>>().join(" + "))
}

fn one(duo: &mut Duo, t: &mut T44, case: &Case, x: &X) {
    let tdf = schema_for(&case.table);
    let props = ExecutionProps::new();
    let e = lx::x_to_expr(x);
    let phys = match datafusion::physical_expr::create_physical_expr(&e, &tdf, &props, &PhysicalPlanningContext::default()) {
        Ok(p) => p,
        Err(_) => return,
    };
    let (ts, fs) = (arrow_schema(&case.table), arrow_schema(&case.file));
    let adapter = DefaultPhysicalExprAdapter::new(ts.clone(), fs.clone());
    let rew = match std::panic::catch_unwind(std::panic::AssertUnwindSafe(|| adapter.rewrite(phys.clone()))) {
        Ok(Ok(r)) => r,
        Ok(Err(er)) => {
            if t.adapter_errors.len() < 20 {
                t.adapter_errors.push(format!("{} [{}]: {er}", phys, case.label));
            }
            return;
        }
        Err(_) => {
            t.inconclusive.push(format!("adapter panicked on {phys} [{}]", case.label));
            return;
        }
    };
    t.programs += 1;
    let fam = t.families.entry(case.label.split(": ").nth(1).unwrap_or("?").to_string()).or_insert((0, 0));
    fam.0 += 1;
    // the output type must be the table-schema type of the expression
    if let (Ok(a), Ok(b)) = (phys.data_type(&ts), rew.data_type(&fs)) {
        if a != b {
            t.violations.push(json!({"kind": "data type changed", "original": phys.to_string(), "rewritten": rew.to_string(), "case": case.label,
                "signature": format!("adapter-type: {}", signature(x, case)), "row": {}, "original_value": a.to_string(), "rewritten_value": b.to_string()}));
            return;
        }
    }
    let xs = spec(x, &case.file);
    let xr = match crate::px::phys_to_x_by_index(&rew, &fs) {
        Ok(v) => v,
        Err(u) => {
            *t.unsupported.entry(format!("rewritten: {}", u.0).chars().take(70).collect()).or_insert(0) += 1;
            return;
        }
    };
    if rew.to_string() != phys.to_string() {
        t.changed += 1;
    } else {
        t.unchanged += 1;
    }
    let mk = |_: &mut Enc| -> R<Vec<String>> { Ok(vec![]) };
    match check_x_pair(duo, &xs, &xr, &mk, &|row| replay(&phys, &rew, case, row)) {
        Outcome::Equivalent => {
            t.proved += 1;
            t.families.get_mut(case.label.split(": ").nth(1).unwrap_or("?")).unwrap().1 += 1;
            t.distinct.insert(format!("{phys} => {rew}"));
            if t.samples.len() < 14 && t.proved % 97 == 1 {
                t.samples.push(json!({"case": case.label, "original": phys.to_string(), "rewritten": rew.to_string(), "verdict": "unsat (same value on every file row where the adapted row exists)"}));
            }
        }
        Outcome::Trivial(_) => t.trivial += 1,
        Outcome::Unsupported(w) => *t.unsupported.entry(w.chars().take(70).collect()).or_insert(0) += 1,
        Outcome::Inconclusive(w) => {
            if t.inconclusive.len() < 40 {
                t.inconclusive.push(format!("{phys} [{}] :: {w}", case.label));
            }
        }
        Outcome::Violation(mut v) => {
            v["signature"] = json!(signature(x, case));
            t.violations.push(v);
        }
    }
}

pub fn run(thorough: bool, seed: u64, threads: usize) -> Value {
    let t0 = std::time::Instant::now();
    let timeout_ms = if thorough { 120000 } else { 60000 };
    let mut duo0 = Duo::new(timeout_ms, false);
    let grid = crate::grid::validate(&mut duo0, false);
    drop(duo0);
    let mut cs = cases(thorough);
    let mut rng = gen::Rng::new(seed ^ 0xC44);
    rng.shuffle(&mut cs);
    let mut chunks: Vec<Vec<Case>> = (0..threads).map(|_| vec![]).collect();
    for (i, c) in cs.into_iter().enumerate() {
        chunks[i % threads].push(c);
    }
    let mut total = new_t();
    let (mut queries, mut secs, mut errors, mut disag) = (0u64, 0.0f64, 0u64, 0u64);
    std::thread::scope(|s| {
        let hs: Vec<_> = chunks
            .iter()
            .map(|chunk| {
                s.spawn(move || {
                    let mut duo = Duo::new(timeout_ms, true);
                    let mut t = new_t();
                    for case in chunk {
                        let ty = case.table[0].1.clone();
                        for x in programs(&ty, seed, thorough) {
                            one(&mut duo, &mut t, case, &x);
                        }
                    }
                    (t, duo.queries(), duo.secs(), duo.errors(), duo.disagreements)
                })
            })
            .collect();
        for h in hs {
            let (t, q, ss, e, d) = h.join().unwrap();
            total.programs += t.programs;
            total.changed += t.changed;
            total.proved += t.proved;
            total.trivial += t.trivial;
            total.unchanged += t.unchanged;
            total.adapter_errors.extend(t.adapter_errors);
            for (k, v) in t.unsupported {
                *total.unsupported.entry(k).or_insert(0) += v;
            }
            total.inconclusive.extend(t.inconclusive);
            total.violations.extend(t.violations);
            total.samples.extend(t.samples);
            for (k, v) in t.families {
                let e = total.families.entry(k).or_insert((0, 0));
                e.0 += v.0;
                e.1 += v.1;
            }
            total.distinct.extend(t.distinct);
            queries += q;
            secs += ss;
            errors += e;
            disag += d;
        }
    });
    json!({
        "programs": total.programs, "changed": total.changed, "equivalent": total.proved, "trivial": total.trivial, "unchanged": total.unchanged,
        "unsupported": total.unsupported, "inconclusive": total.inconclusive, "violations": total.violations, "samples": total.samples,
        "simplifier_errors": total.adapter_errors,
        "families": total.families.iter().map(|(k, v)| (k.clone(), json!({"programs": v.0, "proved_equivalent": v.1}))).collect::<BTreeMap<_, _>>(),
        "distinct_rewrites": total.distinct.len(),
        "grid": {"templates": grid.templates, "points": grid.points, "mismatches": grid.mismatches, "unsupported": grid.unsupported},
        "solver": {"queries": queries, "secs": secs, "errors": errors, "disagreements": disag, "solvers": ["z3 5.1.0 (z3-new)", "z3 4.8.12"]},
        "wall_s": t0.elapsed().as_secs_f64(),
    })
}
