//! LogicalPlan -> bounded symbolic relation.  A base table is N symbolic rows (every cell a NULL flag +
//! a bit-vector of the Arrow width) each with a symbolic `present` flag, so all table sizes 0..N are
//! covered.  Operators map row lists to row lists; two plans are compared as multisets of rows.
//! Anything not modelled makes the plan `Unsupported` (counted, never treated as passed).

use crate::enc::{lit_of, Enc, V};
use crate::ir::*;
use crate::lx;
use datafusion::common::{DFSchema, JoinType, NullEquality};
use datafusion::logical_expr::{Distinct, Expr, LogicalPlan};
use std::collections::HashMap;

#[derive(Clone, Debug)]
pub struct Cell {
    pub n: String,
    pub v: String,
}
#[derive(Clone, Debug)]
pub struct Row {
    pub present: String,
    pub cells: Vec<Cell>,
}
#[derive(Clone, Debug)]
pub struct Rel {
    pub tys: Vec<Ty>,
    pub rows: Vec<Row>,
}

pub struct TableDef {
    pub name: String,
    pub cols: Vec<(String, Ty, bool)>,
}

pub struct PlanEnc {
    pub enc: Enc,
    pub nrows: usize,
    pub tables: HashMap<String, Rel>,
    /// names of the declared constants per table: (present, [(n, v, ty)])
    pub table_cells: Vec<(String, Vec<(String, Vec<(String, String, Ty)>)>)>,
    /// the plan may raise an error on some evaluated row (over-approximation)
    pub em: String,
}

fn or2(a: &str, b: &str) -> String {
    if a == "false" {
        b.to_string()
    } else if b == "false" {
        a.to_string()
    } else {
        format!("(or {a} {b})")
    }
}
fn and2(a: &str, b: &str) -> String {
    if a == "true" {
        b.to_string()
    } else if b == "true" {
        a.to_string()
    } else if a == "false" || b == "false" {
        "false".to_string()
    } else {
        format!("(and {a} {b})")
    }
}
/// binary-nested sum (SMT-LIB's bvadd is binary)
fn bvsum(terms: &[String], zero: &str) -> String {
    let mut acc = zero.to_string();
    for t in terms {
        acc = format!("(bvadd {acc} {t})");
    }
    acc
}
fn orn(v: &[String]) -> String {
    let v: Vec<&String> = v.iter().filter(|x| *x != "false").collect();
    if v.is_empty() {
        "false".into()
    } else if v.len() == 1 {
        v[0].clone()
    } else {
        format!("(or {})", v.iter().map(|s| s.as_str()).collect::<Vec<_>>().join(" "))
    }
}

impl PlanEnc {
    pub fn new(tables: &[TableDef], nrows: usize) -> PlanEnc {
        let mut enc = Enc::new("y");
        let mut map = HashMap::new();
        let mut tc = vec![];
        for t in tables {
            let mut rows = vec![];
            let mut names = vec![];
            for r in 0..nrows {
                let p = format!("p_{}_{}", t.name, r);
                enc.decls.push(format!("(declare-const {p} Bool)"));
                let mut cells = vec![];
                let mut cn = vec![];
                for (c, ty, nullable) in &t.cols {
                    let nm = format!("{}_{}_{}", t.name, r, c);
                    enc.declare_col(&nm, ty, *nullable);
                    let (n, v, _, _) = enc.cols[&nm].clone();
                    cn.push((n.clone(), v.clone(), ty.clone()));
                    cells.push(Cell { n, v });
                }
                // canonical use of the presence flags: row r+1 present => row r present (removes symmetric models)
                if r > 0 {
                    enc.asserts.push(format!("(=> {p} p_{}_{})", t.name, r - 1));
                }
                names.push((p.clone(), cn));
                rows.push(Row { present: p, cells });
            }
            map.insert(t.name.clone(), Rel { tys: t.cols.iter().map(|c| c.1.clone()).collect(), rows });
            tc.push((t.name.clone(), names));
        }
        PlanEnc { enc, nrows, tables: map, table_cells: tc, em: "false".into() }
    }

    fn bind(&mut self, tys: &[Ty], row: &Row) {
        for (i, (ty, c)) in tys.iter().zip(&row.cells).enumerate() {
            self.enc.cols.insert(format!("#{i}"), (c.n.clone(), c.v.clone(), ty.clone(), true));
        }
    }

    /// evaluate an expression on one row of a relation whose schema is `schema`
    pub fn eval(&mut self, e: &Expr, schema: &DFSchema, tys: &[Ty], row: &Row) -> R<V> {
        let x = lx::expr_to_x_idx(e, schema)?;
        self.bind(tys, row);
        let v = self.enc.expr(&x)?;
        if v.em != "false" {
            let g = and2(&row.present, &v.em);
            self.em = self.enc.def("Bool", or2(&self.em.clone(), &g));
        }
        Ok(v)
    }

    fn is_true(&mut self, v: &V) -> String {
        self.enc.def("Bool", format!("(and (not {}) {})", v.n, v.v))
    }

    fn cell_eq_nullsafe(a: &Cell, b: &Cell) -> String {
        format!("(and (= {} {}) (or {} (= {} {})))", a.n, b.n, a.n, a.v, b.v)
    }
    pub fn row_eq(&mut self, a: &Row, b: &Row) -> String {
        let parts: Vec<String> = a.cells.iter().zip(&b.cells).map(|(x, y)| Self::cell_eq_nullsafe(x, y)).collect();
        if parts.is_empty() {
            "true".into()
        } else {
            self.enc.def("Bool", format!("(and {} true)", parts.join(" ")))
        }
    }

    fn schema_tys(schema: &DFSchema) -> R<Vec<Ty>> {
        schema.fields().iter().map(|f| lx::dt_to_ty(f.data_type())).collect()
    }

    pub fn plan(&mut self, p: &LogicalPlan) -> R<Rel> {
        match p {
            LogicalPlan::TableScan(ts) => {
                if ts.fetch.is_some() {
                    return unsup("TableScan with fetch");
                }
                let name = ts.table_name.table().to_string();
                let base = match self.tables.get(&name) {
                    Some(b) => b.clone(),
                    None => return unsup(format!("unknown table {name}")),
                };
                let src_schema = ts.source.schema();
                if src_schema.fields().len() != base.tys.len() {
                    return unsup("table schema mismatch");
                }
                let mut rel = base.clone();
                // pushed-down filters are expressed over the FULL table schema
                if !ts.filters.is_empty() {
                    let dfs = DFSchema::try_from_qualified_schema(ts.table_name.clone(), &src_schema).map_err(|e| Unsupported(e.to_string()))?;
                    let tys = base.tys.clone();
                    for f in &ts.filters {
                        let mut rows = vec![];
                        for r in &rel.rows {
                            let v = self.eval(f, &dfs, &tys, r)?;
                            let t = self.is_true(&v);
                            rows.push(Row { present: self.enc.def("Bool", and2(&r.present, &t)), cells: r.cells.clone() });
                        }
                        rel.rows = rows;
                    }
                }
                if let Some(proj) = &ts.projection {
                    rel = Rel {
                        tys: proj.iter().map(|i| base.tys[*i].clone()).collect(),
                        rows: rel.rows.iter().map(|r| Row { present: r.present.clone(), cells: proj.iter().map(|i| r.cells[*i].clone()).collect() }).collect(),
                    };
                }
                Ok(rel)
            }
            LogicalPlan::SubqueryAlias(a) => self.plan(&a.input),
            LogicalPlan::Sort(s) => {
                if s.fetch.is_some() {
                    return unsup("Sort with fetch");
                }
                self.plan(&s.input)
            }
            LogicalPlan::Repartition(r) => self.plan(&r.input),
            LogicalPlan::Projection(pr) => {
                let input = self.plan(&pr.input)?;
                let schema = pr.input.schema();
                let tys = Self::schema_tys(&pr.schema)?;
                let mut rows = vec![];
                for r in &input.rows {
                    let mut cells = vec![];
                    for (e, ty) in pr.expr.iter().zip(&tys) {
                        let v = self.eval(e, schema, &input.tys, r)?;
                        let v = coerce_v(v, ty)?;
                        cells.push(Cell { n: v.n, v: v.v });
                    }
                    rows.push(Row { present: r.present.clone(), cells });
                }
                Ok(Rel { tys, rows })
            }
            LogicalPlan::Filter(f) => {
                let input = self.plan(&f.input)?;
                let schema = f.input.schema();
                let mut rows = vec![];
                for r in &input.rows {
                    let v = self.eval(&f.predicate, schema, &input.tys, r)?;
                    let t = self.is_true(&v);
                    rows.push(Row { present: self.enc.def("Bool", and2(&r.present, &t)), cells: r.cells.clone() });
                }
                Ok(Rel { tys: input.tys, rows })
            }
            LogicalPlan::Union(u) => {
                let tys = Self::schema_tys(&u.schema)?;
                let mut rows = vec![];
                for i in &u.inputs {
                    let r = self.plan(i)?;
                    if r.tys != tys {
                        return unsup("union input types differ from the union schema");
                    }
                    rows.extend(r.rows);
                }
                Ok(Rel { tys, rows })
            }
            LogicalPlan::Distinct(Distinct::All(input)) => {
                let r = self.plan(input)?;
                self.distinct(r)
            }
            LogicalPlan::Distinct(_) => unsup("DISTINCT ON"),
            LogicalPlan::EmptyRelation(e) => {
                let tys = Self::schema_tys(&e.schema)?;
                if e.produce_one_row {
                    if !tys.is_empty() {
                        return unsup("EmptyRelation with columns producing a row");
                    }
                    Ok(Rel { tys, rows: vec![Row { present: "true".into(), cells: vec![] }] })
                } else {
                    Ok(Rel { tys, rows: vec![] })
                }
            }
            LogicalPlan::Values(v) => {
                let tys = Self::schema_tys(&v.schema)?;
                let empty = DFSchema::empty();
                let dummy = Row { present: "true".into(), cells: vec![] };
                let mut rows = vec![];
                for vr in &v.values {
                    let mut cells = vec![];
                    for (e, ty) in vr.iter().zip(&tys) {
                        let x = self.eval(e, &empty, &[], &dummy)?;
                        let x = coerce_v(x, ty)?;
                        cells.push(Cell { n: x.n, v: x.v });
                    }
                    rows.push(Row { present: "true".into(), cells });
                }
                Ok(Rel { tys, rows })
            }
            LogicalPlan::Limit(l) => {
                // only limits that are deterministic on multisets
                let skip = match &l.skip {
                    None => 0,
                    Some(e) => match e.as_ref() {
                        Expr::Literal(sv, _) => lx::scalar_to_lit(sv)?.1.unwrap_or(0),
                        _ => return unsup("non-literal skip"),
                    },
                };
                let fetch = match &l.fetch {
                    None => None,
                    Some(e) => match e.as_ref() {
                        Expr::Literal(sv, _) => lx::scalar_to_lit(sv)?.1,
                        _ => return unsup("non-literal fetch"),
                    },
                };
                let input = self.plan(&l.input)?;
                if skip == 0 {
                    match fetch {
                        None => return Ok(input),
                        Some(0) => return Ok(Rel { tys: input.tys, rows: vec![] }),
                        Some(n) if n as usize >= input.rows.len() => return Ok(input),
                        _ => {}
                    }
                }
                unsup("LIMIT that depends on row order")
            }
            LogicalPlan::Join(j) => self.join(j),
            LogicalPlan::Aggregate(a) => self.aggregate(a),
            other => unsup(format!("plan node {}", other.display())),
        }
    }

    fn distinct(&mut self, r: Rel) -> R<Rel> {
        let mut rows: Vec<Row> = vec![];
        for i in 0..r.rows.len() {
            let mut dup = vec![];
            for j in 0..i {
                let eq = self.row_eq(&r.rows[i], &r.rows[j]);
                dup.push(and2(&r.rows[j].present, &eq));
            }
            let d = orn(&dup);
            let p = self.enc.def("Bool", and2(&r.rows[i].present, &format!("(not {d})")));
            rows.push(Row { present: p, cells: r.rows[i].cells.clone() });
        }
        Ok(Rel { tys: r.tys, rows })
    }

    fn null_cells(&self, tys: &[Ty]) -> Vec<Cell> {
        tys.iter().map(|t| Cell { n: "true".into(), v: lit_of(t, 0) }).collect()
    }

    fn join(&mut self, j: &datafusion::logical_expr::Join) -> R<Rel> {
        if j.null_aware {
            return unsup("null-aware join");
        }
        let l = self.plan(&j.left)?;
        let r = self.plan(&j.right)?;
        let (ls, rs) = (j.left.schema().clone(), j.right.schema().clone());
        let both = ls.join(&rs).map_err(|e| Unsupported(e.to_string()))?;
        let mut both_tys = l.tys.clone();
        both_tys.extend(r.tys.clone());
        // match matrix
        let mut m: Vec<Vec<String>> = vec![];
        for lr in &l.rows {
            let mut rowm = vec![];
            for rr in &r.rows {
                let mut conds = vec![lr.present.clone(), rr.present.clone()];
                for (le, re) in &j.on {
                    let a = self.eval(le, &ls, &l.tys, lr)?;
                    let b = self.eval(re, &rs, &r.tys, rr)?;
                    if a.ty != b.ty {
                        return unsup("join key types differ");
                    }
                    let eq = match j.null_equality {
                        NullEquality::NullEqualsNothing => format!("(and (not {}) (not {}) (= {} {}))", a.n, b.n, a.v, b.v),
                        NullEquality::NullEqualsNull => format!("(and (= {} {}) (or {} (= {} {})))", a.n, b.n, a.n, a.v, b.v),
                    };
                    conds.push(eq);
                }
                if let Some(f) = &j.filter {
                    let mut cells = lr.cells.clone();
                    cells.extend(rr.cells.clone());
                    let joined = Row { present: and2(&lr.present, &rr.present), cells };
                    let v = self.eval(f, &both, &both_tys, &joined)?;
                    conds.push(self.is_true(&v));
                }
                rowm.push(self.enc.def("Bool", format!("(and {} true)", conds.join(" "))));
            }
            m.push(rowm);
        }
        let any_r = |pe: &mut PlanEnc, i: usize| -> String {
            let v: Vec<String> = m[i].clone();
            pe.enc.def("Bool", orn(&v))
        };
        let any_l = |pe: &mut PlanEnc, k: usize| -> String {
            let v: Vec<String> = m.iter().map(|row| row[k].clone()).collect();
            pe.enc.def("Bool", orn(&v))
        };
        let mut rows = vec![];
        let inner = |rows: &mut Vec<Row>| {
            for (i, lr) in l.rows.iter().enumerate() {
                for (k, rr) in r.rows.iter().enumerate() {
                    let mut cells = lr.cells.clone();
                    cells.extend(rr.cells.clone());
                    rows.push(Row { present: m[i][k].clone(), cells });
                }
            }
        };
        match j.join_type {
            JoinType::Inner => {
                inner(&mut rows);
                Ok(Rel { tys: both_tys, rows })
            }
            JoinType::Left | JoinType::Right | JoinType::Full => {
                inner(&mut rows);
                if matches!(j.join_type, JoinType::Left | JoinType::Full) {
                    for (i, lr) in l.rows.iter().enumerate() {
                        let a = any_r(self, i);
                        let mut cells = lr.cells.clone();
                        cells.extend(self.null_cells(&r.tys));
                        rows.push(Row { present: self.enc.def("Bool", and2(&lr.present, &format!("(not {a})"))), cells });
                    }
                }
                if matches!(j.join_type, JoinType::Right | JoinType::Full) {
                    for (k, rr) in r.rows.iter().enumerate() {
                        let a = any_l(self, k);
                        let mut cells = self.null_cells(&l.tys);
                        cells.extend(rr.cells.clone());
                        rows.push(Row { present: self.enc.def("Bool", and2(&rr.present, &format!("(not {a})"))), cells });
                    }
                }
                Ok(Rel { tys: both_tys, rows })
            }
            JoinType::LeftSemi | JoinType::LeftAnti => {
                for (i, lr) in l.rows.iter().enumerate() {
                    let a = any_r(self, i);
                    let c = if j.join_type == JoinType::LeftSemi { a } else { format!("(not {a})") };
                    rows.push(Row { present: self.enc.def("Bool", and2(&lr.present, &c)), cells: lr.cells.clone() });
                }
                Ok(Rel { tys: l.tys, rows })
            }
            JoinType::RightSemi | JoinType::RightAnti => {
                for (k, rr) in r.rows.iter().enumerate() {
                    let a = any_l(self, k);
                    let c = if j.join_type == JoinType::RightSemi { a } else { format!("(not {a})") };
                    rows.push(Row { present: self.enc.def("Bool", and2(&rr.present, &c)), cells: rr.cells.clone() });
                }
                Ok(Rel { tys: r.tys, rows })
            }
            other => unsup(format!("join type {other:?}")),
        }
    }

    fn aggregate(&mut self, a: &datafusion::logical_expr::Aggregate) -> R<Rel> {
        use datafusion::logical_expr::ExprSchemable;
        let input = self.plan(&a.input)?;
        let ischema = a.input.schema().clone();
        let out_tys = Self::schema_tys(&a.schema)?;
        if a.group_expr.iter().any(|e| matches!(e, Expr::GroupingSet(_))) {
            return unsup("GROUPING SETS");
        }
        let ng = a.group_expr.len();
        // group keys per input row
        let mut keys: Vec<Vec<Cell>> = vec![];
        for r in &input.rows {
            let mut k = vec![];
            for (e, ty) in a.group_expr.iter().zip(&out_tys) {
                let v = self.eval(e, &ischema, &input.tys, r)?;
                let v = coerce_v(v, ty)?;
                k.push(Cell { n: v.n, v: v.v });
            }
            keys.push(k);
        }
        // aggregate argument values per input row
        struct Agg {
            name: String,
            arg: Option<Vec<V>>,
            filt: Option<Vec<String>>,
            out: Ty,
        }
        let mut aggs: Vec<Agg> = vec![];
        for (e, out_ty) in a.aggr_expr.iter().zip(out_tys.iter().skip(ng)) {
            let inner = match e {
                Expr::Alias(al) => al.expr.as_ref(),
                other => other,
            };
            let Expr::AggregateFunction(af) = inner else {
                return unsup(format!("aggregate expression {e}"));
            };
            if af.params.distinct || !af.params.order_by.is_empty() || af.params.null_treatment.is_some() {
                return unsup("aggregate with DISTINCT / ORDER BY / null treatment");
            }
            let name = af.func.name().to_lowercase();
            if !matches!(name.as_str(), "count" | "sum" | "min" | "max") {
                return unsup(format!("aggregate function {name}"));
            }
            let filt = match &af.params.filter {
                None => None,
                Some(f) => {
                    let mut fs = vec![];
                    for r in &input.rows {
                        let v = self.eval(f, &ischema, &input.tys, r)?;
                        fs.push(self.is_true(&v));
                    }
                    Some(fs)
                }
            };
            let arg = if af.params.args.len() == 1 {
                let mut vs = vec![];
                for r in &input.rows {
                    vs.push(self.eval(&af.params.args[0], &ischema, &input.tys, r)?);
                }
                Some(vs)
            } else if af.params.args.is_empty() {
                None
            } else {
                return unsup("aggregate with several arguments");
            };
            let _ = e.get_type(&ischema);
            aggs.push(Agg { name, arg, filt, out: out_ty.clone() });
        }
        let n = input.rows.len();
        // same[i][j]: rows i and j are in the same group
        let mut same = vec![vec!["true".to_string(); n]; n];
        for i in 0..n {
            for j in 0..n {
                if i != j && ng > 0 {
                    let parts: Vec<String> = keys[i].iter().zip(&keys[j]).map(|(x, y)| Self::cell_eq_nullsafe(x, y)).collect();
                    same[i][j] = self.enc.def("Bool", format!("(and {} true)", parts.join(" ")));
                }
            }
        }
        let mut rows = vec![];
        let groups: Vec<Option<usize>> = if ng == 0 { vec![None] } else { (0..n).map(Some).collect() };
        for g in groups {
            // the output row for group leader i (first present row of its group); without GROUP BY one row always
            let (present, members): (String, Vec<String>) = match g {
                None => ("true".into(), (0..n).map(|j| input.rows[j].present.clone()).collect()),
                Some(i) => {
                    let earlier: Vec<String> = (0..i).map(|j| and2(&input.rows[j].present, &same[i][j])).collect();
                    let p = self.enc.def("Bool", and2(&input.rows[i].present, &format!("(not {})", orn(&earlier))));
                    (p, (0..n).map(|j| self.enc.def("Bool", and2(&input.rows[j].present, &same[i][j]))).collect())
                }
            };
            let mut cells: Vec<Cell> = match g {
                None => vec![],
                Some(i) => keys[i].clone(),
            };
            for ag in &aggs {
                let w = ag.out.bits();
                let sort = ag.out.sort();
                // rows that contribute: member of the group, FILTER true, argument not NULL (count(*) has a literal)
                let mut contrib: Vec<(String, Option<V>)> = vec![];
                for j in 0..n {
                    let mut c = members[j].clone();
                    if let Some(fs) = &ag.filt {
                        c = and2(&c, &fs[j]);
                    }
                    let v = ag.arg.as_ref().map(|a| a[j].clone());
                    if let Some(v) = &v {
                        c = and2(&c, &format!("(not {})", v.n));
                    }
                    contrib.push((self.enc.def("Bool", c), v));
                }
                let any = self.enc.def("Bool", orn(&contrib.iter().map(|c| c.0.clone()).collect::<Vec<_>>()));
                let cell = match ag.name.as_str() {
                    "count" => {
                        if !matches!(ag.out, Ty::Int { bits: 64, signed: true }) {
                            return unsup("count result type");
                        }
                        let terms: Vec<String> = contrib.iter().map(|c| format!("(ite {} (_ bv1 64) (_ bv0 64))", c.0)).collect();
                        let s = if terms.is_empty() { "(_ bv0 64)".to_string() } else { bvsum(&terms, "(_ bv0 64)") };
                        Cell { n: "false".into(), v: self.enc.def(&sort, s) }
                    }
                    "sum" => {
                        let mut terms = vec![];
                        for (c, v) in &contrib {
                            let v = v.as_ref().ok_or(Unsupported("sum without argument".into()))?;
                            if !v.ty.is_int() || !ag.out.is_int() || ag.out.bits() < v.ty.bits() {
                                return unsup(format!("sum({}) -> {}", v.ty, ag.out));
                            }
                            let ext = if v.ty.bits() == w {
                                v.v.clone()
                            } else if v.ty.signed() {
                                format!("((_ sign_extend {}) {})", w - v.ty.bits(), v.v)
                            } else {
                                format!("((_ zero_extend {}) {})", w - v.ty.bits(), v.v)
                            };
                            terms.push(format!("(ite {c} {ext} {})", lit_of(&ag.out, 0)));
                        }
                        let s = if terms.is_empty() { lit_of(&ag.out, 0) } else { bvsum(&terms, &lit_of(&ag.out, 0)) };
                        Cell { n: self.enc.def("Bool", format!("(not {any})")), v: self.enc.def(&sort, s) }
                    }
                    mm => {
                        let mut acc_v = lit_of(&ag.out, 0);
                        let mut acc_set = "false".to_string();
                        for (c, v) in &contrib {
                            let v = v.as_ref().ok_or(Unsupported("min/max without argument".into()))?;
                            if v.ty != ag.out {
                                return unsup("min/max type");
                            }
                            let better = if !ag.out.is_bv() {
                                // booleans: false < true
                                if mm == "min" {
                                    format!("(and (not {}) {acc_v})", v.v)
                                } else {
                                    format!("(and {} (not {acc_v}))", v.v)
                                }
                            } else {
                                let lt = if ag.out.signed() { "bvslt" } else { "bvult" };
                                if mm == "min" {
                                    format!("({lt} {} {acc_v})", v.v)
                                } else {
                                    format!("({lt} {acc_v} {})", v.v)
                                }
                            };
                            let take = self.enc.def("Bool", format!("(and {c} (or (not {acc_set}) {better}))"));
                            acc_v = self.enc.def(&sort, format!("(ite {take} {} {acc_v})", v.v));
                            acc_set = self.enc.def("Bool", or2(&acc_set, c));
                        }
                        Cell { n: self.enc.def("Bool", format!("(not {any})")), v: acc_v }
                    }
                };
                cells.push(cell);
            }
            rows.push(Row { present, cells });
        }
        Ok(Rel { tys: out_tys, rows })
    }

    /// Bool term: the two relations differ as multisets of rows
    pub fn differ(&mut self, a: &Rel, b: &Rel) -> R<String> {
        if a.tys != b.tys {
            return unsup("output types differ");
        }
        let mut alts = vec![];
        let all: Vec<Row> = a.rows.iter().chain(b.rows.iter()).cloned().collect();
        let w = 8; // multiplicities fit in 8 bits for the bounded tables used here
        if a.rows.len() >= 250 || b.rows.len() >= 250 {
            return unsup("too many rows for the multiplicity counter");
        }
        for t in &all {
            let mut ca = vec![];
            for r in &a.rows {
                let eq = self.row_eq(r, t);
                ca.push(format!("(ite (and {} {eq}) (_ bv1 {w}) (_ bv0 {w}))", r.present));
            }
            let mut cb = vec![];
            for r in &b.rows {
                let eq = self.row_eq(r, t);
                cb.push(format!("(ite (and {} {eq}) (_ bv1 {w}) (_ bv0 {w}))", r.present));
            }
            let sa = bvsum(&ca, &format!("(_ bv0 {w})"));
            let sb = bvsum(&cb, &format!("(_ bv0 {w})"));
            let d = self.enc.def("Bool", format!("(and {} (not (= {sa} {sb})))", t.present));
            alts.push(d);
        }
        Ok(self.enc.def("Bool", orn(&alts)))
    }
}

/// a Null-typed (or identical) value used in a column of type `ty`
pub fn coerce_v(v: V, ty: &Ty) -> R<V> {
    if &v.ty == ty {
        return Ok(v);
    }
    if v.ty == Ty::Null {
        return Ok(V { em: v.em, eu: v.eu, n: "true".into(), v: lit_of(ty, 0), ty: ty.clone() });
    }
    unsup(format!("expression of type {} in a column of type {}", v.ty, ty))
}
