//! C22 — statistics-based pruning never skips a container with a matching row, and literal
//! guarantees hold on every row for which the predicate is true (translation validation).
//!
//! The real `PruningPredicateBuilder::try_build` rewrites each predicate P into a predicate P' over
//! min / max / null_count / row_count statistics; the real `LiteralGuarantee::analyze` derives
//! guarantees.  z3 decides, for a symbolic container (every statistic an independent solver variable
//! that may also be "unknown") and a symbolic witness row consistent with the statistics, that
//!      P(row) is TRUE   and   P'(stats) is FALSE            is unsatisfiable,
//! and that   P(row) is TRUE  and  not guarantee(row)        is unsatisfiable.
//! Models are replayed through the real `PruningPredicate::prune` on a one-container
//! `PruningStatistics` and the real evaluator on the witness row.

use crate::c04::schema_for;
use crate::enc::{lit_of, Enc};
use crate::gen::{self, bin, col, lit, Gen};
use crate::ir::*;
use crate::lx;
use crate::px;
use crate::smt::{Duo, Verdict};
use crate::tvq::{row_from_model, row_json};
use datafusion::arrow::array::{ArrayRef, BooleanArray};
use datafusion::arrow::datatypes::{DataType, Field, Schema};
use datafusion::common::pruning::PruningStatistics;
use datafusion::common::tree_node::{TreeNode, TreeNodeRecursion};
use datafusion::common::{Column, ScalarValue};
use datafusion::logical_expr::execution_props::ExecutionProps;
use datafusion::logical_expr::physical_planning_context::PhysicalPlanningContext;
use datafusion::logical_expr::simplify::SimplifyContext;
use datafusion::optimizer::simplify_expressions::ExprSimplifier;
use datafusion::physical_expr::utils::{Guarantee, LiteralGuarantee};
use datafusion::physical_expr::PhysicalExpr;
use datafusion_pruning::PruningPredicateBuilder;
use serde_json::{json, Value};
use std::collections::{BTreeMap, HashMap, HashSet};
use std::sync::Arc;

struct OneContainer {
    cells: HashMap<String, ScalarValue>, // "a_min", "a_max", "a_null_count", "row_count"
    types: HashMap<String, DataType>,
}

impl PruningStatistics for OneContainer {
    fn min_values(&self, column: &Column) -> Option<ArrayRef> {
        let dt = self.types.get(&column.name)?;
        let v = self.cells.get(&format!("{}_min", column.name)).cloned().unwrap_or(ScalarValue::try_from(dt).ok()?);
        v.to_array_of_size(1).ok()
    }
    fn max_values(&self, column: &Column) -> Option<ArrayRef> {
        let dt = self.types.get(&column.name)?;
        let v = self.cells.get(&format!("{}_max", column.name)).cloned().unwrap_or(ScalarValue::try_from(dt).ok()?);
        v.to_array_of_size(1).ok()
    }
    fn num_containers(&self) -> usize {
        1
    }
    fn null_counts(&self, column: &Column) -> Option<ArrayRef> {
        let v = self.cells.get(&format!("{}_null_count", column.name)).cloned().unwrap_or(ScalarValue::UInt64(None));
        v.to_array_of_size(1).ok()
    }
    fn row_counts(&self) -> Option<ArrayRef> {
        let v = self.cells.get("row_count").cloned().unwrap_or(ScalarValue::UInt64(None));
        v.to_array_of_size(1).ok()
    }
    fn contained(&self, _column: &Column, _values: &HashSet<ScalarValue>) -> Option<BooleanArray> {
        None
    }
}

/// the predicate contains a unary minus applied (directly) to a column
fn negates_column(e: &Arc<dyn PhysicalExpr>) -> bool {
    let mut found = false;
    let _ = e.apply(|n| {
        if let Some(neg) = n.downcast_ref::<datafusion::physical_expr::expressions::NegativeExpr>() {
            if neg.arg().downcast_ref::<datafusion::physical_expr::expressions::Column>().is_some() {
                found = true;
            }
        }
        Ok(TreeNodeRecursion::Continue)
    });
    found
}

fn stat_columns(e: &Arc<dyn PhysicalExpr>) -> Vec<(String, usize)> {
    let mut out: Vec<(String, usize)> = vec![];
    let _ = e.apply(|n| {
        if let Some(c) = n.downcast_ref::<datafusion::physical_expr::expressions::Column>() {
            if !out.iter().any(|(nm, i)| nm == c.name() && *i == c.index()) {
                out.push((c.name().to_string(), c.index()));
            }
        }
        Ok(TreeNodeRecursion::Continue)
    });
    out
}

/// statistics schema as implied by the column references of P'
fn stat_schema(pp: &Arc<dyn PhysicalExpr>, table: &[(String, Ty, bool)]) -> R<Schema> {
    let cols = stat_columns(pp);
    let n = cols.iter().map(|c| c.1 + 1).max().unwrap_or(0);
    let mut fields: Vec<Option<Field>> = vec![None; n];
    for (name, idx) in cols {
        let dt = if name == "row_count" || name.ends_with("_null_count") {
            DataType::UInt64
        } else if let Some(base) = name.strip_suffix("_min").or_else(|| name.strip_suffix("_max")) {
            match table.iter().find(|c| c.0 == base) {
                Some(c) => lx::ty_to_dt(&c.1),
                None => return unsup(format!("statistics column {name} for unknown column")),
            }
        } else {
            return unsup(format!("unexpected statistics column {name}"));
        };
        fields[idx] = Some(Field::new(&name, dt, true));
    }
    let mut out = vec![];
    for (i, f) in fields.into_iter().enumerate() {
        out.push(f.unwrap_or_else(|| Field::new(format!("unused_{i}"), DataType::Null, true)));
    }
    Ok(Schema::new(out))
}

pub struct T22 {
    pub programs: u64,
    pub always_true: u64,
    pub build_errors: u64,
    pub proved: u64,
    pub trivial: u64,
    pub guarantees_checked: u64,
    pub guarantees_proved: u64,
    pub unsupported: BTreeMap<String, u64>,
    pub inconclusive: Vec<String>,
    pub violations: Vec<Value>,
    pub samples: Vec<Value>,
    pub distinct: HashSet<String>,
}

impl T22 {
    fn new() -> T22 {
        T22 {
            programs: 0,
            always_true: 0,
            build_errors: 0,
            proved: 0,
            trivial: 0,
            guarantees_checked: 0,
            guarantees_proved: 0,
            unsupported: BTreeMap::new(),
            inconclusive: vec![],
            violations: vec![],
            samples: vec![],
            distinct: HashSet::new(),
        }
    }
}

fn uns(t: &mut T22, w: String) {
    *t.unsupported.entry(w.chars().take(70).collect()).or_insert(0) += 1;
}

/// validity of the statistics for a container that holds the witness row
fn validity(enc: &mut Enc, table: &[(String, Ty, bool)], stat: &Schema) -> Vec<String> {
    let mut out = vec![];
    let has = |n: &str| stat.fields().iter().any(|f| f.name() == n);
    let u64t = Ty::Int { bits: 64, signed: false };
    if has("row_count") {
        enc.declare_col("row_count", &u64t, true);
        let (n, v, _, _) = enc.cols["row_count"].clone();
        out.push(format!("(or {n} (bvuge {v} (_ bv1 64)))"));
    }
    for (c, ty, _) in table {
        if !enc.cols.contains_key(c) {
            continue;
        }
        let (xn, xv, _, _) = enc.cols[c].clone();
        // `lo <= hi` in the engine's ordering (false < true for booleans)
        let isb = *ty == Ty::Bool;
        let lef = move |lo: &str, hi: &str| -> String {
            if isb {
                format!("(=> {lo} {hi})")
            } else if ty.signed() {
                format!("(bvsle {lo} {hi})")
            } else {
                format!("(bvule {lo} {hi})")
            }
        };
        let (mn, mx, nc) = (format!("{c}_min"), format!("{c}_max"), format!("{c}_null_count"));
        if has(&mn) {
            enc.declare_col(&mn, ty, true);
            let (n, v, _, _) = enc.cols[&mn].clone();
            out.push(format!("(or {xn} {n} {})", lef(&v, &xv)));
        }
        if has(&mx) {
            enc.declare_col(&mx, ty, true);
            let (n, v, _, _) = enc.cols[&mx].clone();
            out.push(format!("(or {xn} {n} {})", lef(&xv, &v)));
        }
        if has(&mn) && has(&mx) {
            let (n1, v1, _, _) = enc.cols[&mn].clone();
            let (n2, v2, _, _) = enc.cols[&mx].clone();
            out.push(format!("(or {n1} {n2} {})", lef(&v1, &v2)));
        }
        if has(&nc) {
            enc.declare_col(&nc, &u64t, true);
            let (n, v, _, _) = enc.cols[&nc].clone();
            // a NULL witness needs at least one NULL in the container
            out.push(format!("(or (not {xn}) {n} (bvuge {v} (_ bv1 64)))"));
            if has("row_count") {
                let (rn, rv, _, _) = enc.cols["row_count"].clone();
                out.push(format!("(or {n} {rn} (bvule {v} {rv}))"));
                // a non-NULL witness: not every row is NULL
                out.push(format!("(or {xn} {n} {rn} (bvult {v} {rv}))"));
            }
        }
    }
    out
}

fn run_one(duo: &mut Duo, x: &X, table: &[(String, Ty, bool)], simplify_first: bool, t: &mut T22) {
    t.programs += 1;
    let schema = schema_for(table);
    let e = lx::x_to_expr(x);
    let simp = ExprSimplifier::new(SimplifyContext::builder().with_schema(schema.clone()).build());
    let Ok(mut coerced) = simp.coerce(e, &schema) else {
        t.build_errors += 1;
        return;
    };
    if simplify_first {
        match std::panic::catch_unwind(std::panic::AssertUnwindSafe(|| simp.simplify(coerced.clone()))) {
            Ok(Ok(s)) => coerced = s,
            _ => {}
        }
    }
    let props = ExecutionProps::new();
    let Ok(phys) = datafusion::physical_expr::create_physical_expr(&coerced, &schema, &props, &PhysicalPlanningContext::default()) else {
        t.build_errors += 1;
        return;
    };
    let aschema = Arc::new(schema.as_arrow().clone());
    let xp = match px::phys_to_x(&phys, &aschema) {
        Ok(x) => x,
        Err(u) => return uns(t, format!("predicate: {}", u.0)),
    };
    if xp.ty() != Ty::Bool {
        return uns(t, "predicate is not boolean".into());
    }
    // ---- literal guarantees
    let gs = LiteralGuarantee::analyze(&phys);
    for g in &gs {
        t.guarantees_checked += 1;
        let Some(ccol) = table.iter().find(|c| c.0 == g.column.name) else {
            uns(t, "guarantee on unknown column".into());
            continue;
        };
        let mut enc = Enc::new("g");
        for (n, ty, nl) in table {
            enc.declare_col(n, ty, *nl);
        }
        let p = match enc.expr(&xp) {
            Ok(v) => v,
            Err(u) => {
                uns(t, format!("predicate: {}", u.0));
                continue;
            }
        };
        let (xn, xv, _, _) = enc.cols[&ccol.0].clone();
        let mut eqs = vec![];
        let mut bad_lit = false;
        for l in &g.literals {
            match lx::scalar_to_lit(l) {
                Ok((lt, Some(v))) if lt == ccol.1 => eqs.push(format!("(= {xv} {})", lit_of(&lt, v))),
                Ok((_, None)) => {}
                _ => bad_lit = true,
            }
        }
        if bad_lit {
            uns(t, "guarantee literal of another type".into());
            continue;
        }
        let any = if eqs.is_empty() { "false".to_string() } else { format!("(or {} false)", eqs.join(" ")) };
        let holds = match g.guarantee {
            Guarantee::In => format!("(and (not {xn}) {any})"),
            Guarantee::NotIn => format!("(or {xn} (not {any}))"),
        };
        duo.push();
        duo.send(&enc.preamble());
        duo.send(&format!("(assert (and (not {}) (not {}) {}))\n(assert (not {holds}))\n", p.em, p.n, p.v));
        match duo.check() {
            Verdict::Unsat => t.guarantees_proved += 1,
            Verdict::Unknown => t.inconclusive.push(format!("guarantee of {phys}: solver undecided")),
            Verdict::Sat => {
                let vals = duo.get_values(&enc.model_names());
                let row = row_from_model(&enc, &vals);
                // replay: P(row) really true, and the row really violates the guarantee
                let ok = match px::full_row_batch(&aschema, &row) {
                    Ok(b) => matches!(lx::real_eval_phys(&phys, &b), Ok(ScalarValue::Boolean(Some(true)))),
                    Err(_) => false,
                };
                let xval = row.iter().find(|r| r.0 == ccol.0).and_then(|r| r.3);
                let in_set = xval.map(|v| g.literals.iter().any(|l| matches!(lx::scalar_to_lit(l), Ok((_, Some(w))) if w == v))).unwrap_or(false);
                let violated = match g.guarantee {
                    Guarantee::In => !in_set,
                    Guarantee::NotIn => xval.is_some() && in_set,
                };
                let info = json!({"original": phys.to_string(), "rewritten": format!("guarantee {g}"), "row": row_json(&row),
                    "original_value": "Boolean(true)", "rewritten_value": "guarantee violated",
                    "signature": format!("guarantee: {:?} derived from {}", g.guarantee, crate::c04::shape(&phys.to_string()))});
                if ok && violated {
                    t.violations.push(info);
                } else {
                    t.inconclusive.push(format!("guarantee model did not reproduce: {info}"));
                }
            }
        }
        duo.pop();
    }
    // ---- pruning predicate
    let pp = match std::panic::catch_unwind(std::panic::AssertUnwindSafe(|| PruningPredicateBuilder::new().with_file_schema(aschema.clone()).try_build(phys.clone()))) {
        Ok(Ok(p)) => p,
        _ => {
            t.build_errors += 1;
            return;
        }
    };
    if pp.always_true() {
        t.always_true += 1;
        return;
    }
    let pexpr = pp.predicate_expr().clone();
    let sschema = match stat_schema(&pexpr, table) {
        Ok(s) => s,
        Err(u) => return uns(t, u.0),
    };
    let xs = match px::phys_to_x(&pexpr, &sschema) {
        Ok(x) => x,
        Err(u) => return uns(t, format!("statistics predicate: {}", u.0)),
    };
    let mut enc = Enc::new("s");
    for (n, ty, nl) in table {
        enc.declare_col(n, ty, *nl);
    }
    let p = match enc.expr(&xp) {
        Ok(v) => v,
        Err(u) => return uns(t, format!("predicate: {}", u.0)),
    };
    let s = match enc.expr(&xs) {
        Ok(v) => v,
        Err(u) => return uns(t, format!("statistics predicate: {}", u.0)),
    };
    let valid = validity(&mut enc, table, &sschema);
    duo.push();
    duo.send(&enc.preamble());
    for v in &valid {
        duo.send(&format!("(assert {v})\n"));
    }
    // the witness row satisfies P
    duo.send(&format!("(assert (and (not {}) (not {}) {}))\n", p.em, p.n, p.v));
    match duo.check() {
        Verdict::Unsat => t.trivial += 1,
        Verdict::Unknown => t.inconclusive.push(format!("{phys}: solver undecided on the precondition")),
        Verdict::Sat => {
            // ... and the statistics predicate evaluates (without error) to FALSE: the container is skipped
            duo.send(&format!("(assert (and (not {}) (not {}) (not {})))\n", s.em, s.n, s.v));
            match duo.check() {
                Verdict::Unsat => {
                    t.proved += 1;
                    t.distinct.insert(format!("{phys} => {pexpr}"));
                    if t.samples.len() < 10 && t.proved % 41 == 1 {
                        t.samples.push(json!({"predicate": phys.to_string(), "statistics_predicate": pexpr.to_string(), "verdict": "unsat: no valid container with a matching row is skipped"}));
                    }
                }
                Verdict::Unknown => t.inconclusive.push(format!("{phys} => {pexpr}: solver undecided")),
                Verdict::Sat => {
                  // round 0: the solver's model.  If it is the recorded wrapping-negation corner (a negated column whose witness value is
                  // the type minimum), ask again with the type minimum excluded: another defect of the same predicate must not hide behind it.
                  for round in 0..2 {
                    if round == 1 {
                        for (n, ty, _) in table {
                            if let Ty::Int { bits, signed: true } = ty {
                                let clean: String = n.chars().map(|c| if c.is_ascii_alphanumeric() { c } else { '_' }).collect();
                                duo.send(&format!("(assert (or n_{clean} (not (= v_{clean} {}))))\n", crate::enc::bv_lit(ty.min_max().0, *bits)));
                            }
                        }
                        match duo.check() {
                            Verdict::Sat => {}
                            Verdict::Unsat => break,
                            Verdict::Unknown => {
                                t.inconclusive.push(format!("{phys} => {pexpr}: solver undecided (second model)"));
                                break;
                            }
                        }
                    }
                    let vals = duo.get_values(&enc.model_names());
                    let row = row_from_model(&enc, &vals);
                    // replay through the real prune()
                    let mut cells = HashMap::new();
                    let mut types = HashMap::new();
                    for (n, ty, _) in table {
                        types.insert(n.clone(), lx::ty_to_dt(ty));
                    }
                    for (n, ty, _, v) in &row {
                        if n == "row_count" || n.ends_with("_min") || n.ends_with("_max") || n.ends_with("_null_count") {
                            cells.insert(n.clone(), lx::lit_to_scalar(ty, *v));
                        }
                    }
                    let stats = OneContainer { cells, types };
                    let pruned = match std::panic::catch_unwind(std::panic::AssertUnwindSafe(|| pp.prune(&stats))) {
                        Ok(Ok(v)) => v == vec![false],
                        _ => false,
                    };
                    let wit: Vec<_> = row.iter().filter(|r| table.iter().any(|c| c.0 == r.0)).cloned().collect();
                    let matches = match px::full_row_batch(&aschema, &wit) {
                        Ok(b) => matches!(lx::real_eval_phys(&phys, &b), Ok(ScalarValue::Boolean(Some(true)))),
                        Err(_) => false,
                    };
                    let info = json!({"original": phys.to_string(), "rewritten": pexpr.to_string(), "row": row_json(&row),
                        "original_value": format!("predicate on the witness row: {}", matches), "rewritten_value": format!("prune() skips the container: {}", pruned),
                        "signature": if negates_column(&phys)
                            && wit.iter().any(|r| matches!(r.1, Ty::Int { signed: true, .. }) && phys.to_string().contains(&format!("(- {}@", r.0)) && r.3.map(|v| v == r.1.min_max().0).unwrap_or(false))
                        {
                            // recorded finding, keyed by its trigger: unary minus on a column and a witness value at the type minimum
                            "prune: predicate negates a column; witness value is the type minimum (wrapping negation)".to_string()
                        } else {
                            format!("prune: {} => {}", crate::c04::shape(&phys.to_string()), crate::c04::shape(&pexpr.to_string()))
                        }});
                    let known_corner = info["signature"].as_str().map(|s| s.starts_with("prune: predicate negates a column; witness value is the type minimum")).unwrap_or(false);
                    if pruned && matches {
                        t.violations.push(info);
                    } else {
                        t.inconclusive.push(format!("pruning model did not reproduce: {info}"));
                    }
                    if !known_corner {
                        break;
                    }
                  }
                }
            }
        }
    }
    duo.pop();
}

fn programs(thorough: bool, seed: u64) -> Vec<(X, Vec<(String, Ty, bool)>, bool)> {
    let mut out = vec![];
    let tys = if thorough { vec![gen::i(32, true), gen::i(8, false), gen::i(64, true), gen::i(64, false), gen::i(8, true)] } else { vec![gen::i(32, true), gen::i(8, false)] };
    let mut rng = gen::Rng::new(seed ^ 0xC22);
    for (k, ty) in tys.iter().enumerate() {
        let table = vec![("a".to_string(), ty.clone(), true), ("b".to_string(), ty.clone(), true), ("p".to_string(), Ty::Bool, true), ("q".to_string(), Ty::Bool, true)];
        let mut atoms = gen::atoms(ty);
        let a = col("a", ty);
        let b = col("b", ty);
        // prunable arithmetic / cast shapes
        for v in [0i128, 1, 5] {
            for op in gen::CMPS {
                atoms.push(bin(op, bin(BinOp::Plus, a.clone(), lit(ty, 1)), lit(ty, v)));
                atoms.push(bin(op, bin(BinOp::Minus, a.clone(), b.clone()), lit(ty, v)));
                if ty.bits() < 64 {
                    let wide = Ty::Int { bits: 64, signed: true };
                    atoms.push(bin(op, X::Cast { e: Box::new(a.clone()), to: wide.clone(), try_: false }, lit(&wide, v)));
                    atoms.push(bin(op, X::Cast { e: Box::new(a.clone()), to: wide.clone(), try_: true }, lit(&wide, v + 300)));
                    if ty.signed() {
                        // the child of the cast reverses the comparison: the operator fixed up by the child must survive the cast branch
                        let na = X::Neg(Box::new(a.clone()));
                        atoms.push(bin(op, X::Cast { e: Box::new(na.clone()), to: wide.clone(), try_: false }, lit(&wide, v)));
                        atoms.push(bin(op, X::Cast { e: Box::new(na), to: wide.clone(), try_: true }, lit(&wide, v)));
                    }
                }
            }
        }
        for li in [vec![1i128, 2], vec![0, 3, 5], vec![2]] {
            for neg in [false, true] {
                atoms.push(X::InList { e: Box::new(a.clone()), list: li.iter().map(|v| lit(ty, *v)).collect(), negated: neg });
            }
        }
        atoms.push(X::InList { e: Box::new(a.clone()), list: vec![lit(ty, 1), gen::null(ty)], negated: false });
        atoms.push(X::InList { e: Box::new(a.clone()), list: vec![lit(ty, 1), gen::null(ty)], negated: true });
        atoms.push(col("p", &Ty::Bool));
        atoms.push(gen::not(col("p", &Ty::Bool)));
        atoms.push(X::Is(IsOp::Null, Box::new(b.clone())));
        atoms.push(X::Is(IsOp::NotNull, Box::new(b.clone())));
        for x in &atoms {
            out.push((x.clone(), table.clone(), false));
            out.push((gen::not(x.clone()), table.clone(), false));
        }
        // pairs
        let npairs = if thorough { 4000 } else { 600 };
        for _ in 0..npairs {
            let x = rng.pick(&atoms).clone();
            let y = rng.pick(&atoms).clone();
            let op = if rng.chance(1, 2) { BinOp::And } else { BinOp::Or };
            let e = bin(op, x, y);
            let e = if rng.chance(1, 6) { gen::not(e) } else { e };
            out.push((e, table.clone(), rng.chance(1, 3)));
        }
        // random deeper predicates
        let nr = if thorough { 3000 } else { 400 };
        let mut g = Gen::new(seed.wrapping_add(31 * k as u64), ty.clone());
        for j in 0..nr {
            out.push((g.bool_expr(2 + (j % 2) as u32), table.clone(), j % 2 == 0));
        }
    }
    out
}

pub fn run(thorough: bool, seed: u64, threads: usize) -> Value {
    let t0 = std::time::Instant::now();
    let timeout_ms = if thorough { 60000 } else { 20000 };
    let mut duo0 = Duo::new(timeout_ms, false);
    let grid = crate::grid::validate(&mut duo0, false);
    drop(duo0);
    let progs = programs(thorough, seed);
    let chunks: Vec<Vec<(X, Vec<(String, Ty, bool)>, bool)>> = {
        let mut c: Vec<Vec<_>> = (0..threads).map(|_| vec![]).collect();
        for (i, p) in progs.into_iter().enumerate() {
            c[i % threads].push(p);
        }
        c
    };
    let mut total = T22::new();
    let (mut queries, mut secs, mut errors, mut disag) = (0u64, 0.0f64, 0u64, 0u64);
    std::thread::scope(|s| {
        let hs: Vec<_> = chunks
            .iter()
            .map(|chunk| {
                s.spawn(move || {
                    let mut duo = Duo::new(timeout_ms, true);
                    let mut t = T22::new();
                    for (x, table, simp) in chunk {
                        let r = std::panic::catch_unwind(std::panic::AssertUnwindSafe(|| run_one(&mut duo, x, table, *simp, &mut t)));
                        if r.is_err() {
                            uns(&mut t, "panic while processing the program".into());
                            duo = Duo::new(timeout_ms, true);
                        }
                    }
                    (t, duo.queries(), duo.secs(), duo.errors(), duo.disagreements)
                })
            })
            .collect();
        for h in hs {
            let (t, q, ss, e, d) = h.join().unwrap();
            total.programs += t.programs;
            total.always_true += t.always_true;
            total.build_errors += t.build_errors;
            total.proved += t.proved;
            total.trivial += t.trivial;
            total.guarantees_checked += t.guarantees_checked;
            total.guarantees_proved += t.guarantees_proved;
            for (k, v) in t.unsupported {
                *total.unsupported.entry(k).or_insert(0) += v;
            }
            total.inconclusive.extend(t.inconclusive);
            total.violations.extend(t.violations);
            total.samples.extend(t.samples);
            total.distinct.extend(t.distinct);
            queries += q;
            secs += ss;
            errors += e;
            disag += d;
        }
    });
    total.inconclusive.truncate(40);
    json!({
        "programs": total.programs, "changed": total.programs - total.always_true - total.build_errors, "equivalent": total.proved + total.guarantees_proved,
        "trivial": total.trivial, "unchanged": total.always_true, "build_errors": total.build_errors,
        "pruning_predicates_proved_sound": total.proved, "guarantees_checked": total.guarantees_checked, "guarantees_proved": total.guarantees_proved,
        "unsupported": total.unsupported, "inconclusive": total.inconclusive, "violations": total.violations, "samples": total.samples,
        "families": {}, "distinct_rewrites": total.distinct.len(),
        "grid": {"templates": grid.templates, "points": grid.points, "mismatches": grid.mismatches, "unsupported": grid.unsupported},
        "solver": {"queries": queries, "secs": secs, "errors": errors, "disagreements": disag, "solvers": ["z3 5.1.0 (z3-new)", "z3 4.8.12"]},
        "wall_s": t0.elapsed().as_secs_f64(),
    })
}
