//! Logical front end: datafusion `Expr` <-> IR `X`, ScalarValue <-> literal, and the
//! one-row real evaluation used for replay and for the encoder's grid validation.

use crate::ir::*;
use datafusion::arrow::array::{new_null_array, ArrayRef};
use datafusion::arrow::datatypes::{DataType, Field, Schema, TimeUnit};
use datafusion::arrow::record_batch::{RecordBatch, RecordBatchOptions};
use datafusion::common::{DFSchema, ScalarValue};
use datafusion::logical_expr::execution_props::ExecutionProps;
use datafusion::logical_expr::physical_planning_context::PhysicalPlanningContext;
use datafusion::logical_expr::{self as le, Expr, Operator};
use datafusion::physical_expr::create_physical_expr;
use std::sync::Arc;

pub fn dt_to_ty(dt: &DataType) -> R<Ty> {
    Ok(match dt {
        DataType::Boolean => Ty::Bool,
        DataType::Int8 => Ty::Int { bits: 8, signed: true },
        DataType::Int16 => Ty::Int { bits: 16, signed: true },
        DataType::Int32 => Ty::Int { bits: 32, signed: true },
        DataType::Int64 => Ty::Int { bits: 64, signed: true },
        DataType::UInt8 => Ty::Int { bits: 8, signed: false },
        DataType::UInt16 => Ty::Int { bits: 16, signed: false },
        DataType::UInt32 => Ty::Int { bits: 32, signed: false },
        DataType::UInt64 => Ty::Int { bits: 64, signed: false },
        DataType::Date32 => Ty::Date32,
        DataType::Date64 => Ty::Date64,
        DataType::Timestamp(u, None) => Ty::Ts(match u {
            TimeUnit::Second => 0,
            TimeUnit::Millisecond => 1,
            TimeUnit::Microsecond => 2,
            TimeUnit::Nanosecond => 3,
        }),
        DataType::Decimal128(p, s) => Ty::Dec { p: *p, s: *s },
        DataType::Null => Ty::Null,
        other => return unsup(format!("data type {other}")),
    })
}

pub fn ty_to_dt(ty: &Ty) -> DataType {
    match ty {
        Ty::Bool => DataType::Boolean,
        Ty::Int { bits: 8, signed: true } => DataType::Int8,
        Ty::Int { bits: 16, signed: true } => DataType::Int16,
        Ty::Int { bits: 32, signed: true } => DataType::Int32,
        Ty::Int { bits: 64, signed: true } => DataType::Int64,
        Ty::Int { bits: 8, signed: false } => DataType::UInt8,
        Ty::Int { bits: 16, signed: false } => DataType::UInt16,
        Ty::Int { bits: 32, signed: false } => DataType::UInt32,
        Ty::Int { bits: 64, signed: false } => DataType::UInt64,
        Ty::Int { .. } => unreachable!(),
        Ty::Date32 => DataType::Date32,
        Ty::Date64 => DataType::Date64,
        Ty::Ts(u) => DataType::Timestamp([TimeUnit::Second, TimeUnit::Millisecond, TimeUnit::Microsecond, TimeUnit::Nanosecond][*u as usize], None),
        Ty::Dec { p, s } => DataType::Decimal128(*p, *s),
        Ty::Null => DataType::Null,
    }
}

pub fn scalar_to_lit(sv: &ScalarValue) -> R<(Ty, Option<i128>)> {
    let ty = dt_to_ty(&sv.data_type())?;
    let v: Option<i128> = match sv {
        ScalarValue::Boolean(v) => v.map(|b| b as i128),
        ScalarValue::Int8(v) => v.map(|x| x as i128),
        ScalarValue::Int16(v) => v.map(|x| x as i128),
        ScalarValue::Int32(v) => v.map(|x| x as i128),
        ScalarValue::Int64(v) => v.map(|x| x as i128),
        ScalarValue::UInt8(v) => v.map(|x| x as i128),
        ScalarValue::UInt16(v) => v.map(|x| x as i128),
        ScalarValue::UInt32(v) => v.map(|x| x as i128),
        ScalarValue::UInt64(v) => v.map(|x| x as i128),
        ScalarValue::Date32(v) => v.map(|x| x as i128),
        ScalarValue::Date64(v) => v.map(|x| x as i128),
        ScalarValue::TimestampSecond(v, None)
        | ScalarValue::TimestampMillisecond(v, None)
        | ScalarValue::TimestampMicrosecond(v, None)
        | ScalarValue::TimestampNanosecond(v, None) => v.map(|x| x as i128),
        ScalarValue::Decimal128(v, _, _) => *v,
        ScalarValue::Null => None,
        other => return unsup(format!("literal {other:?}")),
    };
    Ok((ty, v))
}

pub fn lit_to_scalar(ty: &Ty, v: Option<i128>) -> ScalarValue {
    match ty {
        Ty::Bool => ScalarValue::Boolean(v.map(|x| x != 0)),
        Ty::Int { bits: 8, signed: true } => ScalarValue::Int8(v.map(|x| x as i8)),
        Ty::Int { bits: 16, signed: true } => ScalarValue::Int16(v.map(|x| x as i16)),
        Ty::Int { bits: 32, signed: true } => ScalarValue::Int32(v.map(|x| x as i32)),
        Ty::Int { bits: 64, signed: true } => ScalarValue::Int64(v.map(|x| x as i64)),
        Ty::Int { bits: 8, signed: false } => ScalarValue::UInt8(v.map(|x| x as u8)),
        Ty::Int { bits: 16, signed: false } => ScalarValue::UInt16(v.map(|x| x as u16)),
        Ty::Int { bits: 32, signed: false } => ScalarValue::UInt32(v.map(|x| x as u32)),
        Ty::Int { bits: 64, signed: false } => ScalarValue::UInt64(v.map(|x| x as u64)),
        Ty::Int { .. } => unreachable!(),
        Ty::Date32 => ScalarValue::Date32(v.map(|x| x as i32)),
        Ty::Date64 => ScalarValue::Date64(v.map(|x| x as i64)),
        Ty::Ts(0) => ScalarValue::TimestampSecond(v.map(|x| x as i64), None),
        Ty::Ts(1) => ScalarValue::TimestampMillisecond(v.map(|x| x as i64), None),
        Ty::Ts(2) => ScalarValue::TimestampMicrosecond(v.map(|x| x as i64), None),
        Ty::Ts(_) => ScalarValue::TimestampNanosecond(v.map(|x| x as i64), None),
        Ty::Dec { p, s } => ScalarValue::Decimal128(v, *p, *s),
        Ty::Null => ScalarValue::Null,
    }
}

/// interpret `bits` (unsigned payload from the solver) as a value of `ty`
pub fn bits_to_i128(ty: &Ty, u: u128) -> i128 {
    let w = ty.bits();
    if w == 128 {
        return u as i128;
    }
    if ty.signed() && (u >> (w - 1)) & 1 == 1 {
        (u as i128) - (1i128 << w)
    } else {
        u as i128
    }
}

fn op_to_binop(op: &Operator) -> R<BinOp> {
    Ok(match op {
        Operator::Eq => BinOp::Eq,
        Operator::NotEq => BinOp::NotEq,
        Operator::Lt => BinOp::Lt,
        Operator::LtEq => BinOp::LtEq,
        Operator::Gt => BinOp::Gt,
        Operator::GtEq => BinOp::GtEq,
        Operator::Plus => BinOp::Plus,
        Operator::Minus => BinOp::Minus,
        Operator::Multiply => BinOp::Multiply,
        Operator::Divide => BinOp::Divide,
        Operator::Modulo => BinOp::Modulo,
        Operator::And => BinOp::And,
        Operator::Or => BinOp::Or,
        Operator::IsDistinctFrom => BinOp::IsDistinctFrom,
        Operator::IsNotDistinctFrom => BinOp::IsNotDistinctFrom,
        Operator::BitwiseAnd => BinOp::BitAnd,
        Operator::BitwiseOr => BinOp::BitOr,
        Operator::BitwiseXor => BinOp::BitXor,
        other => return unsup(format!("operator {other}")),
    })
}

pub fn binop_to_op(op: BinOp) -> Operator {
    match op {
        BinOp::Eq => Operator::Eq,
        BinOp::NotEq => Operator::NotEq,
        BinOp::Lt => Operator::Lt,
        BinOp::LtEq => Operator::LtEq,
        BinOp::Gt => Operator::Gt,
        BinOp::GtEq => Operator::GtEq,
        BinOp::Plus => Operator::Plus,
        BinOp::Minus => Operator::Minus,
        BinOp::Multiply => Operator::Multiply,
        BinOp::Divide => Operator::Divide,
        BinOp::Modulo => Operator::Modulo,
        BinOp::And => Operator::And,
        BinOp::Or => Operator::Or,
        BinOp::IsDistinctFrom => Operator::IsDistinctFrom,
        BinOp::IsNotDistinctFrom => Operator::IsNotDistinctFrom,
        BinOp::BitAnd => Operator::BitwiseAnd,
        BinOp::BitOr => Operator::BitwiseOr,
        BinOp::BitXor => Operator::BitwiseXor,
    }
}

thread_local! {
    /// when set, `expr_to_x` names columns `#<index in schema>` instead of by their unqualified name
    pub static INDEX_NAMES: std::cell::Cell<bool> = const { std::cell::Cell::new(false) };
}

/// expr_to_x with positional column names (used by the plan encoder)
pub fn expr_to_x_idx(e: &Expr, schema: &DFSchema) -> R<X> {
    INDEX_NAMES.with(|c| c.set(true));
    let r = expr_to_x(e, schema);
    INDEX_NAMES.with(|c| c.set(false));
    r
}

pub fn expr_to_x(e: &Expr, schema: &DFSchema) -> R<X> {
    use datafusion::logical_expr::ExprSchemable;
    Ok(match e {
        Expr::Alias(a) => expr_to_x(&a.expr, schema)?,
        Expr::Column(c) => {
            let f = match schema.index_of_column(c) {
                Ok(i) => schema.field(i).clone(),
                Err(e) => return unsup(format!("column {c}: {e}")),
            };
            // plan mode: columns are named by their position in the operator's input schema (two tables may
            // both have a column `a`); outer references are not resolved here
            let name = if INDEX_NAMES.with(|c| c.get()) { format!("#{}", schema.index_of_column(c).unwrap_or(usize::MAX)) } else { c.name.clone() };
            X::Col { name, ty: dt_to_ty(f.data_type())?, nullable: f.is_nullable() }
        }
        Expr::Literal(sv, _) => {
            let (ty, v) = scalar_to_lit(sv)?;
            X::Lit { ty, v }
        }
        Expr::BinaryExpr(b) => X::Bin { op: op_to_binop(&b.op)?, l: Box::new(expr_to_x(&b.left, schema)?), r: Box::new(expr_to_x(&b.right, schema)?) },
        Expr::Not(e) => X::Not(Box::new(expr_to_x(e, schema)?)),
        Expr::Negative(e) => X::Neg(Box::new(expr_to_x(e, schema)?)),
        Expr::IsNull(e) => X::Is(IsOp::Null, Box::new(expr_to_x(e, schema)?)),
        Expr::IsNotNull(e) => X::Is(IsOp::NotNull, Box::new(expr_to_x(e, schema)?)),
        Expr::IsTrue(e) => X::Is(IsOp::True, Box::new(expr_to_x(e, schema)?)),
        Expr::IsFalse(e) => X::Is(IsOp::False, Box::new(expr_to_x(e, schema)?)),
        Expr::IsUnknown(e) => X::Is(IsOp::Unknown, Box::new(expr_to_x(e, schema)?)),
        Expr::IsNotTrue(e) => X::Is(IsOp::NotTrue, Box::new(expr_to_x(e, schema)?)),
        Expr::IsNotFalse(e) => X::Is(IsOp::NotFalse, Box::new(expr_to_x(e, schema)?)),
        Expr::IsNotUnknown(e) => X::Is(IsOp::NotUnknown, Box::new(expr_to_x(e, schema)?)),
        Expr::Between(b) => {
            // planner: expr >= low AND expr <= high   (NOT BETWEEN: expr < low OR expr > high)
            let x = expr_to_x(&b.expr, schema)?;
            let lo = expr_to_x(&b.low, schema)?;
            let hi = expr_to_x(&b.high, schema)?;
            if b.negated {
                X::Bin {
                    op: BinOp::Or,
                    l: Box::new(X::Bin { op: BinOp::Lt, l: Box::new(x.clone()), r: Box::new(lo) }),
                    r: Box::new(X::Bin { op: BinOp::Gt, l: Box::new(x), r: Box::new(hi) }),
                }
            } else {
                X::Bin {
                    op: BinOp::And,
                    l: Box::new(X::Bin { op: BinOp::GtEq, l: Box::new(x.clone()), r: Box::new(lo) }),
                    r: Box::new(X::Bin { op: BinOp::LtEq, l: Box::new(x), r: Box::new(hi) }),
                }
            }
        }
        Expr::InList(il) => {
            let mut list = vec![];
            for it in &il.list {
                list.push(expr_to_x(it, schema)?);
            }
            X::InList { e: Box::new(expr_to_x(&il.expr, schema)?), list, negated: il.negated }
        }
        Expr::Case(c) => {
            let ty = match e.get_type(schema) {
                Ok(t) => dt_to_ty(&t)?,
                Err(er) => return unsup(format!("case type: {er}")),
            };
            let mut whens = vec![];
            for (w, t) in &c.when_then_expr {
                whens.push((expr_to_x(w, schema)?, expr_to_x(t, schema)?));
            }
            X::Case {
                operand: match &c.expr {
                    Some(o) => Some(Box::new(expr_to_x(o, schema)?)),
                    None => None,
                },
                whens,
                els: match &c.else_expr {
                    Some(o) => Some(Box::new(expr_to_x(o, schema)?)),
                    None => None,
                },
                ty,
            }
        }
        Expr::Cast(c) => X::Cast { e: Box::new(expr_to_x(&c.expr, schema)?), to: dt_to_ty(c.field.data_type())?, try_: false },
        Expr::TryCast(c) => X::Cast { e: Box::new(expr_to_x(&c.expr, schema)?), to: dt_to_ty(c.field.data_type())?, try_: true },
        Expr::ScalarFunction(f) => {
            let name = f.func.name().to_string();
            // coalesce cannot be evaluated before simplification ("should have been simplified to case")
            if !matches!(name.as_str(), "nullif") {
                return unsup(format!("function {name}"));
            }
            let ty = match e.get_type(schema) {
                Ok(t) => dt_to_ty(&t)?,
                Err(er) => return unsup(format!("function type: {er}")),
            };
            let mut args = vec![];
            for a in &f.args {
                args.push(expr_to_x(a, schema)?);
            }
            X::Func { name, args, ty }
        }
        other => return unsup(format!("expression {}", other.variant_name())),
    })
}

/// IR -> logical Expr (used by the program generators)
pub fn x_to_expr(x: &X) -> Expr {
    match x {
        X::Col { name, .. } => le::col(name.as_str()),
        X::Lit { ty, v } => Expr::Literal(lit_to_scalar(ty, *v), None),
        X::Bin { op, l, r } => le::binary_expr(x_to_expr(l), binop_to_op(*op), x_to_expr(r)),
        X::Not(e) => Expr::Not(Box::new(x_to_expr(e))),
        X::Neg(e) => Expr::Negative(Box::new(x_to_expr(e))),
        X::Is(op, e) => {
            let b = Box::new(x_to_expr(e));
            match op {
                IsOp::Null => Expr::IsNull(b),
                IsOp::NotNull => Expr::IsNotNull(b),
                IsOp::True => Expr::IsTrue(b),
                IsOp::False => Expr::IsFalse(b),
                IsOp::Unknown => Expr::IsUnknown(b),
                IsOp::NotTrue => Expr::IsNotTrue(b),
                IsOp::NotFalse => Expr::IsNotFalse(b),
                IsOp::NotUnknown => Expr::IsNotUnknown(b),
            }
        }
        X::InList { e, list, negated } => le::in_list(x_to_expr(e), list.iter().map(x_to_expr).collect(), *negated),
        X::Case { operand, whens, els, .. } => Expr::Case(le::Case::new(
            operand.as_ref().map(|o| Box::new(x_to_expr(o))),
            whens.iter().map(|(w, t)| (Box::new(x_to_expr(w)), Box::new(x_to_expr(t)))).collect(),
            els.as_ref().map(|o| Box::new(x_to_expr(o))),
        )),
        X::Cast { e, to, try_ } => {
            if *try_ {
                le::try_cast(x_to_expr(e), ty_to_dt(to))
            } else {
                le::cast(x_to_expr(e), ty_to_dt(to))
            }
        }
        X::Func { name, args, .. } => {
            let a: Vec<Expr> = args.iter().map(x_to_expr).collect();
            match name.as_str() {
                "coalesce" => datafusion::functions::core::expr_fn::coalesce(a),
                "nullif" => datafusion::functions::core::expr_fn::nullif(a[0].clone(), a[1].clone()),
                _ => panic!("x_to_expr: function {name}"),
            }
        }
    }
}

/// A one-row batch for the given columns; `row[i]` = value of column i (None = NULL).
pub fn one_row_batch(cols: &[(String, Ty, bool)], row: &[Option<i128>]) -> (Arc<Schema>, RecordBatch) {
    let fields: Vec<Field> = cols.iter().map(|(n, t, nullable)| Field::new(n, ty_to_dt(t), *nullable || matches!(t, Ty::Null))).collect();
    let schema = Arc::new(Schema::new(fields));
    let arrays: Vec<ArrayRef> = cols
        .iter()
        .zip(row)
        .map(|((_, t, _), v)| {
            if matches!(t, Ty::Null) {
                new_null_array(&DataType::Null, 1)
            } else {
                lit_to_scalar(t, *v).to_array_of_size(1).unwrap()
            }
        })
        .collect();
    let batch = RecordBatch::try_new_with_options(schema.clone(), arrays, &RecordBatchOptions::new().with_row_count(Some(1))).unwrap();
    (schema, batch)
}

/// Evaluate a logical expression on a one-row batch with the real planner + evaluator.
pub fn real_eval(e: &Expr, schema: &DFSchema, batch: &RecordBatch) -> Result<ScalarValue, String> {
    let props = ExecutionProps::new();
    let pe = create_physical_expr(e, schema, &props, &PhysicalPlanningContext::default()).map_err(|e| format!("plan: {e}"))?;
    real_eval_phys(&pe, batch)
}

pub fn real_eval_phys(pe: &Arc<dyn datafusion::physical_expr::PhysicalExpr>, batch: &RecordBatch) -> Result<ScalarValue, String> {
    let r = std::panic::catch_unwind(std::panic::AssertUnwindSafe(|| pe.evaluate(batch)));
    let cv = match r {
        Ok(Ok(cv)) => cv,
        Ok(Err(e)) => return Err(format!("eval: {e}")),
        Err(_) => return Err("eval: panic".to_string()),
    };
    let arr = cv.into_array(1).map_err(|e| format!("into_array: {e}"))?;
    ScalarValue::try_from_array(&arr, 0).map_err(|e| format!("scalar: {e}"))
}

/// same value incl. NULL-ness and data type
pub fn same_scalar(a: &ScalarValue, b: &ScalarValue) -> bool {
    if a.data_type() != b.data_type() {
        return false;
    }
    if a.is_null() || b.is_null() {
        return a.is_null() && b.is_null();
    }
    a == b
}
