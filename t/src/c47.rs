//! C47 — mixed-type comparisons: order independence and exactness (translation validation of the
//! TypeCoercion analyzer rewrite).
//!
//! For every ordered pair of comparable types the real coercion (`ExprSimplifier::coerce`, i.e. the
//! analyzer's TypeCoercionRewriter) is applied to `x op y`; z3 then decides over ALL values of x and y
//!   (a) mirror law:   coerce(x op y)  ==  coerce(y op' x)      (same value, same error behaviour)
//!   (b) exactness:    if coerce(x op y) evaluates without error its truth value is the comparison of
//!                     the mathematical values (integers / decimals; decimals scaled to a common scale)
//!   (c) IN lists:     coerce(x IN (y, z))  ==  coerce(x = y OR x = z)
//! Models are replayed through the real evaluator (and, for (b), against i128 arithmetic).

use crate::c04::schema_for;
use crate::enc::{Enc, V};
use crate::gen::{self, bin, col, lit};
use crate::ir::*;
use crate::lx;
use crate::smt::{Duo, Verdict};
use crate::tvq::{check_pair, replay_pair, row_from_model, row_json, Outcome};
use datafusion::logical_expr::simplify::SimplifyContext;
use datafusion::logical_expr::Expr;
use datafusion::optimizer::simplify_expressions::ExprSimplifier;
use serde_json::{json, Value};
use std::collections::BTreeMap;

fn mirror(op: BinOp) -> BinOp {
    match op {
        BinOp::Lt => BinOp::Gt,
        BinOp::LtEq => BinOp::GtEq,
        BinOp::Gt => BinOp::Lt,
        BinOp::GtEq => BinOp::LtEq,
        o => o,
    }
}

pub fn types(thorough: bool) -> Vec<Ty> {
    let mut v = vec![
        gen::i(8, true),
        gen::i(32, true),
        gen::i(64, true),
        gen::i(8, false),
        gen::i(32, false),
        gen::i(64, false),
        Ty::Dec { p: 10, s: 2 },
        Ty::Dec { p: 5, s: 0 },
        Ty::Dec { p: 20, s: 0 },
        Ty::Date32,
        Ty::Date64,
        Ty::Ts(0),
        Ty::Ts(3),
    ];
    if thorough {
        v.extend([gen::i(16, true), gen::i(16, false), Ty::Dec { p: 18, s: 6 }, Ty::Dec { p: 38, s: 10 }, Ty::Ts(1), Ty::Ts(2)]);
    }
    v
}

fn is_numeric(t: &Ty) -> bool {
    matches!(t, Ty::Int { .. } | Ty::Dec { .. })
}

/// exact mathematical comparison of two integer/decimal values as a Bool term (operands non-NULL)
fn math_cmp(enc: &mut Enc, a: &V, b: &V, op: BinOp) -> R<String> {
    let scale = |t: &Ty| match t {
        Ty::Dec { s, .. } => *s as i32,
        _ => 0,
    };
    let (sa, sb) = (scale(&a.ty), scale(&b.ty));
    let s = sa.max(sb);
    if s - sa > 38 || s - sb > 38 {
        return unsup("scale difference too large");
    }
    // just wide enough for value * 10^k without wrap-around (narrow multipliers keep the SAT problem small)
    let kmax = (s - sa).max(s - sb) as u32;
    // same width and same textual form as Enc::cast uses for Int/Decimal -> Decimal, so that the solver sees
    // the identical product term on both sides (otherwise it has to prove two multipliers equivalent)
    let _ = kmax;
    let wide = 256u32;
    let ext = |v: &V| {
        let w = v.ty.bits();
        if v.ty.signed() {
            format!("((_ sign_extend {}) {})", wide - w, v.v)
        } else {
            format!("((_ zero_extend {}) {})", wide - w, v.v)
        }
    };
    let mul = |t: String, k: i32| if k == 0 { t } else { format!("(bvmul {t} (_ bv{} {wide}))", 10u128.pow(k as u32)) };
    let sort = format!("(_ BitVec {wide})");
    let x = enc.def(&sort, mul(ext(a), s - sa));
    let y = enc.def(&sort, mul(ext(b), s - sb));
    Ok(match op {
        BinOp::Eq | BinOp::IsNotDistinctFrom => format!("(= {x} {y})"),
        BinOp::NotEq | BinOp::IsDistinctFrom => format!("(not (= {x} {y}))"),
        BinOp::Lt => format!("(bvslt {x} {y})"),
        BinOp::LtEq => format!("(bvsle {x} {y})"),
        BinOp::Gt => format!("(bvsgt {x} {y})"),
        BinOp::GtEq => format!("(bvsge {x} {y})"),
        _ => return unsup("not a comparison"),
    })
}

/// i128 ground truth for replay of (b)
fn math_truth(ta: &Ty, va: i128, tb: &Ty, vb: i128, op: BinOp) -> Option<bool> {
    let scale = |t: &Ty| match t {
        Ty::Dec { s, .. } => *s as u32,
        _ => 0,
    };
    let s = scale(ta).max(scale(tb));
    let x = va.checked_mul(10i128.checked_pow(s - scale(ta))?)?;
    let y = vb.checked_mul(10i128.checked_pow(s - scale(tb))?)?;
    Some(match op {
        BinOp::Eq | BinOp::IsNotDistinctFrom => x == y,
        BinOp::NotEq | BinOp::IsDistinctFrom => x != y,
        BinOp::Lt => x < y,
        BinOp::LtEq => x <= y,
        BinOp::Gt => x > y,
        BinOp::GtEq => x >= y,
        _ => return None,
    })
}

pub struct T47 {
    pub programs: u64,
    pub not_comparable: u64,
    pub proved: u64,
    pub trivial: u64,
    pub unsupported: BTreeMap<String, u64>,
    pub inconclusive: Vec<String>,
    pub violations: Vec<Value>,
    pub samples: Vec<Value>,
    pub by_kind: BTreeMap<String, (u64, u64)>,
    pub coerced_types: BTreeMap<String, String>,
}

fn coerce(e: &Expr, cols: &[(String, Ty, bool)]) -> Option<(Expr, std::sync::Arc<datafusion::common::DFSchema>)> {
    let schema = schema_for(cols);
    let simp = ExprSimplifier::new(SimplifyContext::builder().with_schema(schema.clone()).build());
    match std::panic::catch_unwind(std::panic::AssertUnwindSafe(|| simp.coerce(e.clone(), &schema))) {
        Ok(Ok(c)) => Some((c, schema)),
        _ => None,
    }
}

fn note(t: &mut T47, kind: &str, ok: bool) {
    let e = t.by_kind.entry(kind.to_string()).or_insert((0, 0));
    e.0 += 1;
    if ok {
        e.1 += 1;
    }
}

fn handle(t: &mut T47, kind: &str, desc: String, out: Outcome, sig: String) {
    t.programs += 1;
    match out {
        Outcome::Equivalent => {
            t.proved += 1;
            note(t, kind, true);
            if t.samples.len() < 12 && t.proved % 53 == 1 {
                t.samples.push(json!({"kind": kind, "program": desc, "verdict": "unsat"}));
            }
        }
        Outcome::Trivial(_) => {
            t.trivial += 1;
            note(t, kind, false);
        }
        Outcome::Unsupported(w) => {
            *t.unsupported.entry(w.chars().take(70).collect()).or_insert(0) += 1;
            note(t, kind, false);
        }
        Outcome::Inconclusive(w) => {
            if t.inconclusive.len() < 40 {
                t.inconclusive.push(format!("[{kind}] {desc} :: {w}"));
            }
            note(t, kind, false);
        }
        Outcome::Violation(mut v) => {
            v["kind"] = json!(kind);
            v["program"] = json!(desc);
            v["signature"] = json!(sig);
            t.violations.push(v);
            note(t, kind, false);
        }
    }
}

/// (b): the coerced comparison is exact
fn check_exact(duo: &mut Duo, coerced: &Expr, schema: &datafusion::common::DFSchema, xa: &X, xb: &X, op: BinOp) -> Outcome {
    let xc = match lx::expr_to_x(coerced, schema) {
        Ok(x) => x,
        Err(u) => return Outcome::Unsupported(format!("coerced: {}", u.0)),
    };
    let mut enc = Enc::new("x");
    let mut cols = vec![];
    xc.columns(&mut cols);
    xa.columns(&mut cols);
    xb.columns(&mut cols);
    for (n, ty, nl) in &cols {
        enc.declare_col(n, ty, *nl);
    }
    let c = match enc.expr(&xc) {
        Ok(v) => v,
        Err(u) => return Outcome::Unsupported(format!("coerced: {}", u.0)),
    };
    let (a, b) = match (enc.expr(xa), enc.expr(xb)) {
        (Ok(a), Ok(b)) => (a, b),
        _ => return Outcome::Unsupported("operand".into()),
    };
    let truth = match math_cmp(&mut enc, &a, &b, op) {
        Ok(t) => t,
        Err(u) => return Outcome::Unsupported(u.0),
    };
    duo.push();
    duo.send(&enc.preamble());
    // both operands non-NULL, the coerced comparison evaluates without error
    duo.send(&format!("(assert (and (not {}) (not {}) (not {})))\n", a.n, b.n, c.em));
    let out = match duo.check() {
        Verdict::Unsat => Outcome::Trivial("the coerced comparison errs for all non-NULL operands".into()),
        Verdict::Unknown => Outcome::Inconclusive("solver undecided on the precondition".into()),
        Verdict::Sat => {
            duo.send(&format!("(assert (or {} (not (= {} {}))))\n", c.n, c.v, truth));
            match duo.check() {
                Verdict::Unsat => Outcome::Equivalent,
                Verdict::Unknown => Outcome::Inconclusive("solver undecided".into()),
                Verdict::Sat => {
                    let vals = duo.get_values(&enc.model_names());
                    let row = row_from_model(&enc, &vals);
                    // replay: real evaluation of the coerced expression vs i128 arithmetic
                    let cols: Vec<(String, Ty, bool)> = row.iter().map(|(n, t, nl, _)| (n.clone(), t.clone(), *nl)).collect();
                    let vs: Vec<Option<i128>> = row.iter().map(|r| r.3).collect();
                    let (asch, batch) = lx::one_row_batch(&cols, &vs);
                    let dfs = datafusion::common::DFSchema::try_from(asch.as_ref().clone()).unwrap();
                    let real = lx::real_eval(coerced, &dfs, &batch);
                    let val_of = |x: &X| -> Option<(Ty, i128)> {
                        match x {
                            X::Col { name, ty, .. } => row.iter().find(|r| &r.0 == name).and_then(|r| r.3).map(|v| (ty.clone(), v)),
                            X::Lit { ty, v } => v.map(|v| (ty.clone(), v)),
                            _ => None,
                        }
                    };
                    let truth = match (val_of(xa), val_of(xb)) {
                        (Some((ta, va)), Some((tb, vb))) => math_truth(&ta, va, &tb, vb, op),
                        _ => None,
                    };
                    let info = json!({"original": coerced.to_string(), "rewritten": "exact comparison of the mathematical values", "row": row_json(&row),
                        "original_value": format!("{real:?}"), "rewritten_value": format!("{truth:?}")});
                    match (&real, truth) {
                        (Ok(sv), Some(t)) => {
                            let got = match sv {
                                datafusion::common::ScalarValue::Boolean(Some(b)) => Some(*b),
                                _ => None,
                            };
                            if got != Some(t) {
                                Outcome::Violation(info)
                            } else {
                                Outcome::Inconclusive(format!("model did not reproduce: {info}"))
                            }
                        }
                        _ => Outcome::Inconclusive(format!("replay not possible: {info}")),
                    }
                }
            }
        }
    };
    duo.pop();
    out
}

fn boundary_lits(ty: &Ty, other: &Ty) -> Vec<i128> {
    let (lo, hi) = ty.min_max();
    let (olo, ohi) = other.min_max();
    let mut v = vec![lo, hi, 0, 1, lo + 1, hi - 1, olo, ohi, olo - 1, ohi + 1, 16];
    if ty.signed() {
        v.push(-1);
    }
    v.retain(|x| *x >= lo && *x <= hi);
    v.sort();
    v.dedup();
    v
}

pub fn run(thorough: bool, seed: u64, threads: usize) -> Value {
    let t0 = std::time::Instant::now();
    let timeout_ms = if thorough { 300000 } else { 120000 };
    let mut duo0 = Duo::new(timeout_ms, false);
    let grid = crate::grid::validate(&mut duo0, false);
    drop(duo0);
    let tys = types(thorough);
    let ops = [BinOp::Eq, BinOp::NotEq, BinOp::Lt, BinOp::LtEq, BinOp::Gt, BinOp::GtEq, BinOp::IsDistinctFrom, BinOp::IsNotDistinctFrom];
    // work items: (ta, tb)
    let mut pairs = vec![];
    for a in &tys {
        for b in &tys {
            pairs.push((a.clone(), b.clone(), false));
        }
    }
    if !thorough {
        // the 16-bit integer types take part in the quick tier through the literal family only (single-column queries)
        let ints: Vec<Ty> = types(true).into_iter().filter(|t| matches!(t, Ty::Int { .. })).collect();
        for a in [gen::i(16, true), gen::i(16, false)] {
            for b in &ints {
                pairs.push((a.clone(), b.clone(), true));
                if !matches!(b, Ty::Int { bits: 16, .. }) {
                    pairs.push((b.clone(), a.clone(), true));
                }
            }
        }
    }
    let mut rng = gen::Rng::new(seed ^ 0xC47);
    rng.shuffle(&mut pairs);
    let chunks: Vec<Vec<(Ty, Ty, bool)>> = {
        let mut c: Vec<Vec<(Ty, Ty, bool)>> = (0..threads).map(|_| vec![]).collect();
        for (i, p) in pairs.into_iter().enumerate() {
            c[i % threads].push(p);
        }
        c
    };
    let mut total = T47 {
        programs: 0,
        not_comparable: 0,
        proved: 0,
        trivial: 0,
        unsupported: BTreeMap::new(),
        inconclusive: vec![],
        violations: vec![],
        samples: vec![],
        by_kind: BTreeMap::new(),
        coerced_types: BTreeMap::new(),
    };
    let (mut queries, mut secs, mut errors, mut disag) = (0u64, 0.0f64, 0u64, 0u64);
    std::thread::scope(|s| {
        let hs: Vec<_> = chunks
            .iter()
            .map(|chunk| {
                s.spawn(move || {
                    let mut duo = Duo::new(timeout_ms, true);
                    let mut t = T47 {
                        programs: 0,
                        not_comparable: 0,
                        proved: 0,
                        trivial: 0,
                        unsupported: BTreeMap::new(),
                        inconclusive: vec![],
                        violations: vec![],
                        samples: vec![],
                        by_kind: BTreeMap::new(),
                        coerced_types: BTreeMap::new(),
                    };
                    for (ta, tb, lit_only) in chunk {
                        let cols = vec![("x".to_string(), ta.clone(), true), ("y".to_string(), tb.clone(), true), ("z".to_string(), tb.clone(), true)];
                        let (x, y, z) = (col("x", ta), col("y", tb), col("z", tb));
                        let no_assume = |_: &mut Enc| -> R<Vec<String>> { Ok(vec![]) };
                        let pair_ops: &[BinOp] = if *lit_only { &[] } else { &ops };
                        for op in pair_ops.iter().copied() {
                            let e1 = lx::x_to_expr(&bin(op, x.clone(), y.clone()));
                            let e2 = lx::x_to_expr(&bin(mirror(op), y.clone(), x.clone()));
                            let (c1, schema) = match coerce(&e1, &cols) {
                                Some(c) => c,
                                None => {
                                    t.not_comparable += 1;
                                    continue;
                                }
                            };
                            let c2 = match coerce(&e2, &cols) {
                                Some(c) => c.0,
                                None => {
                                    // comparable in one operand order only: that by itself breaks order independence
                                    t.programs += 1;
                                    t.violations.push(json!({"kind": "mirror", "program": format!("{e1} coerces, {e2} does not"),
                                        "signature": format!("mirror: coercion accepted in one operand order only ({ta} vs {tb})"), "row": {}}));
                                    continue;
                                }
                            };
                            t.coerced_types.insert(format!("{ta} {op:?} {tb}"), c1.to_string());
                            // (a) mirror law, both directions (error behaviour included)
                            let d = format!("{c1}  vs  {c2}");
                            let o1 = check_pair(&mut duo, &c1, &c2, &schema, &no_assume);
                            handle(&mut t, "mirror", d.clone(), o1, format!("mirror: {ta} {op:?} {tb}"));
                            let o2 = check_pair(&mut duo, &c2, &c1, &schema, &no_assume);
                            handle(&mut t, "mirror", d, o2, format!("mirror: {tb} {:?} {ta}", mirror(op)));
                            // (b) exactness for integers / decimals
                            if is_numeric(ta) && is_numeric(tb) {
                                let o = check_exact(&mut duo, &c1, &schema, &x, &y, op);
                                handle(&mut t, "exact", c1.to_string(), o, format!("exact: {ta} {op:?} {tb}"));
                            }
                        }
                        // literal operands: coercion followed by the simplifier (unwrap_cast participates)
                        let lits = boundary_lits(tb, ta);
                        let lit_ops: &[BinOp] = if thorough { &ops } else { &[BinOp::Eq, BinOp::Lt, BinOp::GtEq] };
                        for v in lits {
                            for op in lit_ops {
                                let l = lit(tb, v);
                                for (lhs, rhs, xa, xb) in [(x.clone(), l.clone(), &x, &l), (l.clone(), x.clone(), &l, &x)] {
                                    let e = lx::x_to_expr(&bin(*op, lhs, rhs));
                                    let Some((c, schema)) = coerce(&e, &cols) else {
                                        t.not_comparable += 1;
                                        continue;
                                    };
                                    let simp = ExprSimplifier::new(SimplifyContext::builder().with_schema(schema.clone()).build());
                                    let s = match std::panic::catch_unwind(std::panic::AssertUnwindSafe(|| simp.simplify(c.clone()))) {
                                        Ok(Ok(s)) => s,
                                        _ => continue,
                                    };
                                    if is_numeric(ta) && is_numeric(tb) {
                                        let o = check_exact(&mut duo, &s, &schema, xa, xb, *op);
                                        handle(&mut t, "exact-literal", format!("{e}  ~>  {s}"), o, format!("exact-literal: {ta} {op:?} {tb}"));
                                    }
                                }
                            }
                        }
                        // (c) IN list vs OR of equalities
                        let e_in = lx::x_to_expr(&X::InList { e: Box::new(x.clone()), list: vec![y.clone(), z.clone()], negated: false });
                        let e_or = lx::x_to_expr(&bin(BinOp::Or, bin(BinOp::Eq, x.clone(), y.clone()), bin(BinOp::Eq, x.clone(), z.clone())));
                        if *lit_only {
                            continue;
                        }
                        if let (Some((ci, schema)), Some((co, _))) = (coerce(&e_in, &cols), coerce(&e_or, &cols)) {
                            let d = format!("{ci}  vs  {co}");
                            let o1 = check_pair(&mut duo, &co, &ci, &schema, &no_assume);
                            handle(&mut t, "inlist", d.clone(), o1, format!("inlist: {ta} IN ({tb})"));
                            let o2 = check_pair(&mut duo, &ci, &co, &schema, &no_assume);
                            handle(&mut t, "inlist", d, o2, format!("inlist: {ta} IN ({tb})"));
                        }
                    }
                    (t, duo.queries(), duo.secs(), duo.errors(), duo.disagreements)
                })
            })
            .collect();
        for h in hs {
            let (t, q, ss, e, d) = h.join().unwrap();
            total.programs += t.programs;
            total.not_comparable += t.not_comparable;
            total.proved += t.proved;
            total.trivial += t.trivial;
            for (k, v) in t.unsupported {
                *total.unsupported.entry(k).or_insert(0) += v;
            }
            total.inconclusive.extend(t.inconclusive);
            total.violations.extend(t.violations);
            total.samples.extend(t.samples);
            for (k, v) in t.by_kind {
                let e = total.by_kind.entry(k).or_insert((0, 0));
                e.0 += v.0;
                e.1 += v.1;
            }
            total.coerced_types.extend(t.coerced_types);
            queries += q;
            secs += ss;
            errors += e;
            disag += d;
        }
    });
    let _ = replay_pair;
    json!({
        "programs": total.programs, "changed": total.programs, "equivalent": total.proved, "trivial": total.trivial, "unchanged": 0,
        "not_comparable": total.not_comparable, "unsupported": total.unsupported, "inconclusive": total.inconclusive,
        "violations": total.violations, "samples": total.samples,
        "families": total.by_kind.iter().map(|(k, v)| (k.clone(), json!({"programs": v.0, "proved_equivalent": v.1}))).collect::<BTreeMap<_, _>>(),
        "distinct_rewrites": total.proved,
        "coercions": total.coerced_types.iter().take(400).map(|(k, v)| (k.clone(), json!(v))).collect::<BTreeMap<_, _>>(),
        "grid": {"templates": grid.templates, "points": grid.points, "mismatches": grid.mismatches, "unsupported": grid.unsupported},
        "solver": {"queries": queries, "secs": secs, "errors": errors, "disagreements": disag, "solvers": ["z3 5.1.0 (z3-new)", "z3 4.8.12"]},
        "wall_s": t0.elapsed().as_secs_f64(),
    })
}
