//! Cross-validation of the SMT semantics (enc.rs) against the real evaluator: every operator
//! template is evaluated on a grid of boundary rows by both, and the results must agree:
//!   real = Err        => may-error bit is true
//!   real = Ok(value)  => must-error bit is false, NULL flag and payload agree
//! A mismatch makes every check of this engine inconclusive (exit 2): the encoder is wrong
//! (or the evaluator changed), so no verdict can be trusted.

use crate::enc::{lit_of, Enc};
use crate::ir::*;
use crate::lx;
use crate::smt::{parse_bv, Duo, Verdict};
use datafusion::common::DFSchema;

pub fn boundary(ty: &Ty) -> Vec<Option<i128>> {
    match ty {
        Ty::Bool => vec![Some(0), Some(1), None],
        Ty::Null => vec![None],
        _ => {
            let (lo, hi) = ty.min_max();
            let mut v = vec![lo, lo + 1, 0, 1, 2, hi - 1, hi];
            if ty.signed() {
                v.push(-1);
                v.push(-2);
            }
            if let Ty::Dec { s, .. } = ty {
                if *s > 0 {
                    let one = 10i128.pow(*s as u32);
                    v.extend([one, -one, one + 1, one / 2, -(one / 2), one * 3 / 2, -(one * 3 / 2), one / 2 - 1, one * 5 / 2]);
                }
            }
            if matches!(ty, Ty::Ts(_) | Ty::Date32 | Ty::Date64) {
                v.extend([999, 1000, 1001, 1500, -999, -1000, -1001, -1500, 86_400_000, 86_399_999, -86_400_001, 1_500_000_000]);
            }
            v.sort();
            v.dedup();
            let mut out: Vec<Option<i128>> = v.into_iter().filter(|x| *x >= lo && *x <= hi).map(Some).collect();
            out.push(None);
            out
        }
    }
}

pub struct SmtVal {
    pub em: bool,
    pub eu: bool,
    pub n: bool,
    pub v: u128,
}

pub fn smt_eval(duo: &mut Duo, x: &X, cols: &[(String, Ty, bool)], row: &[Option<i128>]) -> R<SmtVal> {
    smt_eval_mode(duo, x, cols, row, false)
}

/// `direct_div`: use the division circuit (instant on concrete operands) instead of the fresh-quotient
/// encoding; the grid uses the fresh-quotient encoding on every 8th row so that it is validated as well
pub fn smt_eval_mode(duo: &mut Duo, x: &X, cols: &[(String, Ty, bool)], row: &[Option<i128>], direct_div: bool) -> R<SmtVal> {
    let mut enc = Enc::new("g");
    enc.direct_div = direct_div;
    for (n, t, nl) in cols {
        enc.declare_col(n, t, *nl);
    }
    let v = enc.expr(x)?;
    duo.push();
    duo.send(&enc.preamble());
    for ((name, ty, _), val) in cols.iter().zip(row) {
        let (n, c, _, _) = &enc.cols[name];
        match val {
            None => duo.send(&format!("(assert {n})\n")),
            Some(x) => duo.send(&format!("(assert (and (not {n}) (= {c} {})))\n", lit_of(ty, *x))),
        }
    }
    duo.send(&format!(
        "(define-fun out_em () Bool {})\n(define-fun out_eu () Bool {})\n(define-fun out_n () Bool {})\n(define-fun out_v () {} {})\n",
        v.em,
        v.eu,
        v.n,
        v.ty.sort(),
        v.v
    ));
    let r = match duo.check() {
        Verdict::Sat => {
            let vals = duo.get_values(&["out_em".into(), "out_eu".into(), "out_n".into(), "out_v".into()]);
            let g = |k: &str| vals.iter().find(|(n, _)| n == k).map(|(_, v)| v.clone()).unwrap_or_default();
            Ok(SmtVal { em: g("out_em") == "true", eu: g("out_eu") == "true", n: g("out_n") == "true", v: parse_bv(&g("out_v")).unwrap_or(0) })
        }
        other => unsup(format!("grid row not satisfiable: {other:?}")),
    };
    duo.pop();
    r
}

fn col(name: &str, ty: &Ty) -> X {
    X::Col { name: name.into(), ty: ty.clone(), nullable: true }
}
fn bin(op: BinOp, l: X, r: X) -> X {
    X::Bin { op, l: Box::new(l), r: Box::new(r) }
}
fn lit(ty: &Ty, v: i128) -> X {
    X::Lit { ty: ty.clone(), v: Some(v) }
}

pub fn int_types(all: bool) -> Vec<Ty> {
    let mut v = vec![
        Ty::Int { bits: 8, signed: true },
        Ty::Int { bits: 32, signed: true },
        Ty::Int { bits: 64, signed: true },
        Ty::Int { bits: 8, signed: false },
        Ty::Int { bits: 64, signed: false },
    ];
    if all {
        v.extend([Ty::Int { bits: 16, signed: true }, Ty::Int { bits: 16, signed: false }, Ty::Int { bits: 32, signed: false }]);
    }
    v
}

/// (description, expression, columns)
pub fn templates(thorough: bool) -> Vec<(String, X, Vec<(String, Ty, bool)>)> {
    use BinOp::*;
    let mut out = vec![];
    let b = Ty::Bool;
    let i32t = Ty::Int { bits: 32, signed: true };
    for ty in int_types(thorough) {
        let cols = vec![("a".to_string(), ty.clone(), true), ("b".to_string(), ty.clone(), true)];
        for op in [Eq, NotEq, Lt, LtEq, Gt, GtEq, IsDistinctFrom, IsNotDistinctFrom, Plus, Minus, Multiply, Divide, Modulo, BitAnd, BitOr, BitXor] {
            out.push((format!("{ty}: a {op:?} b"), bin(op, col("a", &ty), col("b", &ty)), cols.clone()));
        }
        // literal operands take the scalar kernels
        out.push((format!("{ty}: a / 0"), bin(Divide, col("a", &ty), lit(&ty, 0)), cols[..1].to_vec()));
        out.push((format!("{ty}: a % 0"), bin(Modulo, col("a", &ty), lit(&ty, 0)), cols[..1].to_vec()));
        out.push((format!("{ty}: 7 / a"), bin(Divide, lit(&ty, 7), col("a", &ty)), cols[..1].to_vec()));
        out.push((format!("{ty}: a + MAX"), bin(Plus, col("a", &ty), lit(&ty, ty.min_max().1)), cols[..1].to_vec()));
        if ty.signed() {
            out.push((format!("{ty}: -a"), X::Neg(Box::new(col("a", &ty))), cols[..1].to_vec()));
            // a column-free operand is a scalar: ScalarValue::arithmetic_negate is checked
            out.push((format!("{ty}: a < -(MIN)"), bin(Lt, col("a", &ty), X::Neg(Box::new(lit(&ty, ty.min_max().0)))), cols[..1].to_vec()));
            out.push((format!("{ty}: a < -(MIN+1)"), bin(Lt, col("a", &ty), X::Neg(Box::new(lit(&ty, ty.min_max().0 + 1)))), cols[..1].to_vec()));
            out.push((format!("{ty}: a < -(1 - 2)"), bin(Lt, col("a", &ty), X::Neg(Box::new(bin(Minus, lit(&ty, 1), lit(&ty, 2))))), cols[..1].to_vec()));
            out.push((format!("{ty}: a / -1"), bin(Divide, col("a", &ty), lit(&ty, -1)), cols[..1].to_vec()));
            out.push((format!("{ty}: a % -1"), bin(Modulo, col("a", &ty), lit(&ty, -1)), cols[..1].to_vec()));
        }
        out.push((format!("{ty}: a IS NULL"), X::Is(IsOp::Null, Box::new(col("a", &ty))), cols[..1].to_vec()));
        out.push((
            format!("{ty}: a IN (b, 1, NULL)"),
            X::InList { e: Box::new(col("a", &ty)), list: vec![col("b", &ty), lit(&ty, 1), X::Lit { ty: ty.clone(), v: None }], negated: false },
            cols.clone(),
        ));
        out.push((
            format!("{ty}: a NOT IN (b, 1)"),
            X::InList { e: Box::new(col("a", &ty)), list: vec![col("b", &ty), lit(&ty, 1)], negated: true },
            cols.clone(),
        ));
        // casts between integer types
        for to in int_types(thorough) {
            if to != ty {
                for try_ in [false, true] {
                    out.push((
                        format!("{}CAST(a: {ty} AS {to})", if try_ { "TRY_" } else { "" }),
                        X::Cast { e: Box::new(col("a", &ty)), to: to.clone(), try_ },
                        cols[..1].to_vec(),
                    ));
                }
            }
        }
        for (p, s) in [(10u8, 2i8), (38, 0), (5, 0), (3, 2)] {
            let to = Ty::Dec { p, s };
            for try_ in [false, true] {
                out.push((
                    format!("{}CAST(a: {ty} AS {to})", if try_ { "TRY_" } else { "" }),
                    X::Cast { e: Box::new(col("a", &ty)), to: to.clone(), try_ },
                    cols[..1].to_vec(),
                ));
            }
        }
        // CASE / coalesce / nullif with a possibly failing branch
        let cols4 = vec![("a".to_string(), ty.clone(), true), ("b".to_string(), ty.clone(), true), ("p".to_string(), b.clone(), true)];
        out.push((
            format!("{ty}: CASE WHEN p THEN a / b ELSE a END"),
            X::Case { operand: None, whens: vec![(col("p", &b), bin(Divide, col("a", &ty), col("b", &ty)))], els: Some(Box::new(col("a", &ty))), ty: ty.clone() },
            cols4.clone(),
        ));
        out.push((
            format!("{ty}: CASE WHEN p THEN a ELSE a / b END"),
            X::Case { operand: None, whens: vec![(col("p", &b), col("a", &ty))], els: Some(Box::new(bin(Divide, col("a", &ty), col("b", &ty)))), ty: ty.clone() },
            cols4.clone(),
        ));
        out.push((
            format!("{ty}: CASE WHEN a / b = 1 THEN a END"),
            X::Case { operand: None, whens: vec![(bin(Eq, bin(Divide, col("a", &ty), col("b", &ty)), lit(&ty, 1)), col("a", &ty))], els: None, ty: ty.clone() },
            cols.clone(),
        ));
        out.push((
            format!("{ty}: CASE a WHEN b THEN 1 WHEN 2 THEN 7 / b END"),
            X::Case {
                operand: Some(Box::new(col("a", &ty))),
                whens: vec![(col("b", &ty), lit(&ty, 1)), (lit(&ty, 2), bin(Divide, lit(&ty, 7), col("b", &ty)))],
                els: None,
                ty: ty.clone(),
            },
            cols.clone(),
        ));
        out.push((
            format!("{ty}: nullif(a, b)"),
            X::Func { name: "nullif".into(), args: vec![col("a", &ty), col("b", &ty)], ty: ty.clone() },
            cols.clone(),
        ));
        // short-circuit with failing operands
        let q = |l: &str, r: &str| bin(Eq, bin(Divide, col(l, &ty), col(r, &ty)), lit(&ty, 1));
        let cols_ab_p = cols4.clone();
        for op in [And, Or] {
            out.push((format!("{ty}: p {op:?} (a / b = 1)"), bin(op, col("p", &b), q("a", "b")), cols_ab_p.clone()));
            out.push((format!("{ty}: (a / b = 1) {op:?} p"), bin(op, q("a", "b"), col("p", &b)), cols_ab_p.clone()));
        }
    }
    // booleans
    let colsb = vec![("p".to_string(), b.clone(), true), ("q".to_string(), b.clone(), true)];
    for op in [And, Or, Eq, NotEq, Lt, LtEq, Gt, GtEq, IsDistinctFrom, IsNotDistinctFrom] {
        out.push((format!("p {op:?} q"), bin(op, col("p", &b), col("q", &b)), colsb.clone()));
    }
    out.push(("NOT p".into(), X::Not(Box::new(col("p", &b))), colsb[..1].to_vec()));
    for op in [IsOp::Null, IsOp::NotNull, IsOp::True, IsOp::False, IsOp::Unknown, IsOp::NotTrue, IsOp::NotFalse, IsOp::NotUnknown] {
        out.push((format!("p IS {op:?}"), X::Is(op, Box::new(col("p", &b))), colsb[..1].to_vec()));
    }
    out.push((
        "CASE WHEN p THEN q ELSE NOT q END".into(),
        X::Case { operand: None, whens: vec![(col("p", &b), col("q", &b))], els: Some(Box::new(X::Not(Box::new(col("q", &b))))), ty: b.clone() },
        colsb.clone(),
    ));
    out.push((
        "CASE WHEN p THEN q END".into(),
        X::Case { operand: None, whens: vec![(col("p", &b), col("q", &b))], els: None, ty: b.clone() },
        colsb.clone(),
    ));
    // decimals: comparisons and rescaling casts
    for (p, s) in [(10u8, 2i8), (5, 0)] {
        let ty = Ty::Dec { p, s };
        let cols = vec![("d".to_string(), ty.clone(), true), ("e".to_string(), ty.clone(), true)];
        for op in [Eq, NotEq, Lt, LtEq, Gt, GtEq, IsDistinctFrom] {
            out.push((format!("{ty}: d {op:?} e"), bin(op, col("d", &ty), col("e", &ty)), cols.clone()));
        }
        for (p2, s2) in [(12u8, 4i8), (38, 10), (4, 2)] {
            if s2 >= s {
                let to = Ty::Dec { p: p2, s: s2 };
                for try_ in [false, true] {
                    out.push((format!("{}CAST(d: {ty} AS {to})", if try_ { "TRY_" } else { "" }), X::Cast { e: Box::new(col("d", &ty)), to: to.clone(), try_ }, cols[..1].to_vec()));
                }
            }
        }
    }
    // temporal and decimal conversions
    let conv: Vec<(Ty, Ty)> = vec![
        (Ty::Ts(0), Ty::Ts(3)),
        (Ty::Ts(3), Ty::Ts(1)),
        (Ty::Ts(1), Ty::Ts(2)),
        (Ty::Ts(2), Ty::Ts(0)),
        (Ty::Date32, Ty::Date64),
        (Ty::Date32, Ty::Ts(1)),
        (Ty::Date32, Ty::Ts(3)),
        (Ty::Dec { p: 10, s: 2 }, Ty::Int { bits: 32, signed: true }),
        (Ty::Dec { p: 10, s: 2 }, Ty::Int { bits: 64, signed: true }),
        (Ty::Dec { p: 10, s: 2 }, Ty::Int { bits: 8, signed: false }),
        (Ty::Dec { p: 5, s: 0 }, Ty::Int { bits: 16, signed: true }),
        (Ty::Dec { p: 10, s: 2 }, Ty::Dec { p: 10, s: 0 }),
        (Ty::Dec { p: 10, s: 2 }, Ty::Dec { p: 4, s: 1 }),
    ];
    for (from, to) in conv {
        let cols = vec![("t".to_string(), from.clone(), true), ("u".to_string(), to.clone(), true)];
        for try_ in [false, true] {
            out.push((
                format!("{}CAST(t: {from} AS {to})", if try_ { "TRY_" } else { "" }),
                X::Cast { e: Box::new(col("t", &from)), to: to.clone(), try_ },
                cols[..1].to_vec(),
            ));
        }
        out.push((format!("CAST(t: {from} AS {to}) < u"), bin(Lt, X::Cast { e: Box::new(col("t", &from)), to: to.clone(), try_: false }, col("u", &to)), cols.clone()));
    }
    let _ = i32t;
    out
}

pub struct GridReport {
    pub templates: usize,
    pub points: usize,
    pub mismatches: Vec<String>,
    pub unsupported: Vec<String>,
}

pub fn rows_for(cols: &[(String, Ty, bool)]) -> Vec<Vec<Option<i128>>> {
    let mut rows: Vec<Vec<Option<i128>>> = vec![vec![]];
    for (_, t, _) in cols {
        let b = boundary(t);
        let mut next = vec![];
        for r in &rows {
            for v in &b {
                let mut r2 = r.clone();
                r2.push(*v);
                next.push(r2);
            }
        }
        rows = next;
    }
    rows
}

/// grid validation, templates spread over `threads` solver sessions
pub fn validate(_duo: &mut Duo, thorough: bool) -> GridReport {
    let threads: usize = std::env::var("VERIF_THREADS").ok().and_then(|s| s.parse().ok()).unwrap_or(8);
    let all = templates(thorough);
    let mut chunks: Vec<Vec<(String, X, Vec<(String, Ty, bool)>)>> = (0..threads).map(|_| vec![]).collect();
    for (i, t) in all.into_iter().enumerate() {
        chunks[i % threads].push(t);
    }
    let mut rep = GridReport { templates: 0, points: 0, mismatches: vec![], unsupported: vec![] };
    std::thread::scope(|s| {
        let hs: Vec<_> = chunks
            .into_iter()
            .map(|c| {
                s.spawn(move || {
                    let mut duo = Duo::new(30000, false);
                    validate_some(&mut duo, c)
                })
            })
            .collect();
        for h in hs {
            let r = h.join().unwrap();
            rep.templates += r.templates;
            rep.points += r.points;
            rep.mismatches.extend(r.mismatches);
            rep.unsupported.extend(r.unsupported);
        }
    });
    rep
}

fn validate_some(duo: &mut Duo, some: Vec<(String, X, Vec<(String, Ty, bool)>)>) -> GridReport {
    let mut rep = GridReport { templates: 0, points: 0, mismatches: vec![], unsupported: vec![] };
    for (desc, x, cols) in some {
        rep.templates += 1;
        let e = lx::x_to_expr(&x);
        let mut bad_here = 0;
        for (ri, row) in rows_for(&cols).into_iter().enumerate() {
            let (aschema, batch) = lx::one_row_batch(&cols, &row);
            let dfs = DFSchema::try_from(aschema.as_ref().clone()).unwrap();
            let real = lx::real_eval(&e, &dfs, &batch);
            let sm = match smt_eval_mode(duo, &x, &cols, &row, ri % 8 != 0) {
                Ok(s) => s,
                Err(u) => {
                    rep.unsupported.push(format!("{desc}: {}", u.0));
                    break;
                }
            };
            rep.points += 1;
            let ok = match &real {
                Err(_) => sm.em,
                Ok(sv) => {
                    if sm.eu {
                        false
                    } else {
                        match lx::scalar_to_lit(sv) {
                            Ok((ty, v)) => match v {
                                None => sm.n,
                                Some(v) => !sm.n && lx::bits_to_i128(&ty, sm.v) == v && ty == x.ty(),
                            },
                            Err(_) => false,
                        }
                    }
                }
            };
            if !ok {
                bad_here += 1;
            }
            if !ok && bad_here <= 2 && rep.mismatches.len() < 100 {
                rep.mismatches.push(format!(
                    "{desc} on row {:?}: real = {}, smt = (may_err {}, must_err {}, null {}, bits {:#x})",
                    row,
                    match &real {
                        Ok(v) => format!("{v:?}"),
                        Err(e) => format!("ERR {}", e.chars().take(100).collect::<String>()),
                    },
                    sm.em,
                    sm.eu,
                    sm.n,
                    sm.v
                ));
            }
        }
    }
    rep
}
