//! Physical front end: `Arc<dyn PhysicalExpr>` -> IR, and one-row replay of physical expressions.

use crate::ir::*;
use crate::lx;
use crate::tvq::{row_json, Outcome};
use datafusion::arrow::datatypes::Schema;
use datafusion::common::ScalarValue;
use datafusion::logical_expr::Operator;
use datafusion::physical_expr::expressions::{
    BinaryExpr, CaseExpr, CastExpr, Column, InListExpr, IsNotNullExpr, IsNullExpr, Literal, NegativeExpr, NotExpr, TryCastExpr,
};
use datafusion::physical_expr::PhysicalExpr;
use serde_json::json;
use std::sync::Arc;

fn op_to_binop(op: &Operator) -> R<BinOp> {
    Ok(match op {
        Operator::Eq => BinOp::Eq,
        Operator::NotEq => BinOp::NotEq,
        Operator::Lt => BinOp::Lt,
        Operator::LtEq => BinOp::LtEq,
        Operator::Gt => BinOp::Gt,
        Operator::GtEq => BinOp::GtEq,
        Operator::Plus => BinOp::Plus,
        Operator::Minus => BinOp::Minus,
        Operator::Multiply => BinOp::Multiply,
        Operator::Divide => BinOp::Divide,
        Operator::Modulo => BinOp::Modulo,
        Operator::And => BinOp::And,
        Operator::Or => BinOp::Or,
        Operator::IsDistinctFrom => BinOp::IsDistinctFrom,
        Operator::IsNotDistinctFrom => BinOp::IsNotDistinctFrom,
        Operator::BitwiseAnd => BinOp::BitAnd,
        Operator::BitwiseOr => BinOp::BitOr,
        Operator::BitwiseXor => BinOp::BitXor,
        other => return unsup(format!("operator {other}")),
    })
}

thread_local! {
    /// when set, a physical Column is read the way the evaluator reads it: by index only (its name is ignored)
    static BY_INDEX: std::cell::Cell<bool> = const { std::cell::Cell::new(false) };
}

/// `phys_to_x` with evaluator semantics for columns (index decides, the name is not compared)
pub fn phys_to_x_by_index(e: &Arc<dyn PhysicalExpr>, schema: &Schema) -> R<X> {
    BY_INDEX.with(|b| b.set(true));
    let r = phys_to_x(e, schema);
    BY_INDEX.with(|b| b.set(false));
    r
}

pub fn phys_to_x(e: &Arc<dyn PhysicalExpr>, schema: &Schema) -> R<X> {
    if let Some(c) = e.downcast_ref::<Column>() {
        let f = match schema.fields().get(c.index()) {
            Some(f) => f,
            None => return unsup(format!("column index {} out of range", c.index())),
        };
        if f.name() != c.name() && !BY_INDEX.with(|b| b.get()) {
            return unsup(format!("column {}@{} does not match schema field {}", c.name(), c.index(), f.name()));
        }
        return Ok(X::Col { name: f.name().clone(), ty: lx::dt_to_ty(f.data_type())?, nullable: f.is_nullable() });
    }
    if let Some(l) = e.downcast_ref::<Literal>() {
        let (ty, v) = lx::scalar_to_lit(l.value())?;
        return Ok(X::Lit { ty, v });
    }
    if let Some(b) = e.downcast_ref::<BinaryExpr>() {
        return Ok(X::Bin { op: op_to_binop(b.op())?, l: Box::new(phys_to_x(b.left(), schema)?), r: Box::new(phys_to_x(b.right(), schema)?) });
    }
    if let Some(n) = e.downcast_ref::<NotExpr>() {
        return Ok(X::Not(Box::new(phys_to_x(n.arg(), schema)?)));
    }
    if let Some(n) = e.downcast_ref::<NegativeExpr>() {
        return Ok(X::Neg(Box::new(phys_to_x(n.arg(), schema)?)));
    }
    if let Some(n) = e.downcast_ref::<IsNullExpr>() {
        return Ok(X::Is(IsOp::Null, Box::new(phys_to_x(n.arg(), schema)?)));
    }
    if let Some(n) = e.downcast_ref::<IsNotNullExpr>() {
        return Ok(X::Is(IsOp::NotNull, Box::new(phys_to_x(n.arg(), schema)?)));
    }
    if let Some(c) = e.downcast_ref::<CastExpr>() {
        // CastExpr with `safe` options behaves like TRY_CAST
        let try_ = c.cast_options().safe;
        return Ok(X::Cast { e: Box::new(phys_to_x(c.expr(), schema)?), to: lx::dt_to_ty(c.cast_type())?, try_ });
    }
    if let Some(c) = e.downcast_ref::<TryCastExpr>() {
        return Ok(X::Cast { e: Box::new(phys_to_x(c.expr(), schema)?), to: lx::dt_to_ty(c.cast_type())?, try_: true });
    }
    if let Some(il) = e.downcast_ref::<InListExpr>() {
        let mut list = vec![];
        for it in il.list() {
            list.push(phys_to_x(it, schema)?);
        }
        return Ok(X::InList { e: Box::new(phys_to_x(il.expr(), schema)?), list, negated: il.negated() });
    }
    if let Some(c) = e.downcast_ref::<CaseExpr>() {
        let ty = match e.data_type(schema) {
            Ok(t) => lx::dt_to_ty(&t)?,
            Err(er) => return unsup(format!("case type: {er}")),
        };
        let mut whens = vec![];
        for (w, t) in c.when_then_expr() {
            whens.push((phys_to_x(w, schema)?, phys_to_x(t, schema)?));
        }
        return Ok(X::Case {
            operand: match c.expr() {
                Some(o) => Some(Box::new(phys_to_x(o, schema)?)),
                None => None,
            },
            whens,
            els: match c.else_expr() {
                Some(o) => Some(Box::new(phys_to_x(o, schema)?)),
                None => None,
            },
            ty,
        });
    }
    unsup(format!("physical expression {e}"))
}

/// one-row batch over the FULL schema (physical columns are index based)
pub fn full_row_batch(schema: &Schema, row: &[(String, Ty, bool, Option<i128>)]) -> R<datafusion::arrow::record_batch::RecordBatch> {
    let mut cols = vec![];
    let mut vals = vec![];
    for f in schema.fields() {
        let ty = lx::dt_to_ty(f.data_type())?;
        let v = row.iter().find(|r| &r.0 == f.name()).map(|r| r.3).unwrap_or(if f.is_nullable() { None } else { Some(0) });
        cols.push((f.name().clone(), ty, f.is_nullable()));
        vals.push(v);
    }
    Ok(lx::one_row_batch(&cols, &vals).1)
}

fn scalar_str(r: &Result<ScalarValue, String>) -> String {
    match r {
        Ok(v) => format!("{v:?}"),
        Err(e) => format!("ERROR({})", e.chars().take(160).collect::<String>()),
    }
}

pub fn replay_phys(orig: &Arc<dyn PhysicalExpr>, simp: &Arc<dyn PhysicalExpr>, schema: &Schema, row: &[(String, Ty, bool, Option<i128>)]) -> Outcome {
    let batch = match full_row_batch(schema, row) {
        Ok(b) => b,
        Err(u) => return Outcome::Inconclusive(format!("cannot build replay batch: {}", u.0)),
    };
    let ro = lx::real_eval_phys(orig, &batch);
    let rs = lx::real_eval_phys(simp, &batch);
    let differs = match (&ro, &rs) {
        (Ok(a), Ok(b)) => !lx::same_scalar(a, b),
        (Ok(_), Err(_)) => true,
        (Err(_), _) => false,
    };
    let info = json!({
        "original": orig.to_string(), "rewritten": simp.to_string(), "row": row_json(row),
        "original_value": scalar_str(&ro), "rewritten_value": scalar_str(&rs)});
    if differs {
        Outcome::Violation(info)
    } else {
        Outcome::Inconclusive(format!("solver model did not reproduce in the real evaluator (encoder and engine disagree): {info}"))
    }
}
