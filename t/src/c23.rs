//! C23 — interval arithmetic and constraint propagation are sound (integers).
//!
//! The real `Interval` operations (add, sub, mul, div, comparisons, intersect, union, contains,
//! cast_to), `satisfy_greater`, `propagate_arithmetic`, `propagate_comparison` and
//! `ExprIntervalGraph::{evaluate_bounds, update_ranges}` are executed concretely on intervals whose
//! endpoints come from the type boundaries (including unbounded); z3 then decides over ALL VALUES
//! inside the input intervals (mathematical integers, exact arithmetic) that
//!   * the exact result, whenever representable in the type, lies in the returned interval,
//!   * the truth value of a comparison lies in the returned boolean interval,
//!   * propagation never removes a value that belongs to an assignment satisfying the constraint,
//!     and reports "infeasible" only if no assignment satisfies it.
//! A satisfiable query is a concrete (a, b) pair; it is re-checked with i128 arithmetic against the
//! interval the real code returned before it is reported.

use crate::gen;
use crate::ir::*;
use crate::lx;
use crate::smt::{Duo, Verdict};
use datafusion::arrow::compute::CastOptions;
use datafusion::arrow::datatypes::{Field, Schema};
use datafusion::common::ScalarValue;
use datafusion::logical_expr::interval_arithmetic::{apply_operator, satisfy_greater, Interval};
use datafusion::logical_expr::Operator;
use datafusion::physical_expr::expressions::{col as pcol, lit as plit, BinaryExpr};
use datafusion::physical_expr::intervals::cp_solver::{propagate_arithmetic, propagate_comparison, ExprIntervalGraph, PropagationResult};
use datafusion::physical_expr::PhysicalExpr;
use serde_json::{json, Value};
use std::collections::BTreeMap;
use std::sync::Arc;

#[derive(Clone, Debug, PartialEq)]
pub struct Iv {
    pub lo: Option<i128>,
    pub hi: Option<i128>,
}

fn mk(ty: &Ty, iv: &Iv) -> Option<Interval> {
    Interval::try_new(lx::lit_to_scalar(ty, iv.lo), lx::lit_to_scalar(ty, iv.hi)).ok()
}

fn decode(ty: &Ty, i: &Interval) -> R<Iv> {
    let f = |s: &ScalarValue| -> R<Option<i128>> {
        let (t, v) = lx::scalar_to_lit(s)?;
        if &t != ty {
            return unsup(format!("interval endpoint of type {t}, expected {ty}"));
        }
        Ok(v)
    };
    Ok(Iv { lo: f(i.lower())?, hi: f(i.upper())? })
}

fn decode_bool(i: &Interval) -> R<(bool, bool)> {
    match (i.lower(), i.upper()) {
        (ScalarValue::Boolean(Some(a)), ScalarValue::Boolean(Some(b))) => Ok((*a, *b)),
        _ => unsup("boolean interval expected"),
    }
}

fn n(v: i128) -> String {
    if v < 0 {
        format!("(- {})", v.unsigned_abs())
    } else {
        v.to_string()
    }
}

/// x is a value of type ty inside iv
fn member(x: &str, ty: &Ty, iv: &Iv) -> String {
    let (tlo, thi) = ty.min_max();
    let lo = iv.lo.unwrap_or(tlo);
    let hi = iv.hi.unwrap_or(thi);
    format!("(and (<= {} {x}) (<= {x} {}))", n(lo), n(hi))
}
fn in_type(x: &str, ty: &Ty) -> String {
    let (tlo, thi) = ty.min_max();
    format!("(and (<= {} {x}) (<= {x} {}))", n(tlo), n(thi))
}
fn member_i128(x: i128, ty: &Ty, iv: &Iv) -> bool {
    let (tlo, thi) = ty.min_max();
    x >= iv.lo.unwrap_or(tlo) && x <= iv.hi.unwrap_or(thi)
}

const TDIV: &str = "(define-fun tdiv ((a Int) (b Int)) Int (ite (>= a 0) (ite (> b 0) (div a b) (- (div a (- b)))) (ite (> b 0) (- (div (- a) b)) (div (- a) (- b)))))\n";

fn exact(op: &str, a: i128, b: i128) -> Option<i128> {
    match op {
        "add" => a.checked_add(b),
        "sub" => a.checked_sub(b),
        "mul" => a.checked_mul(b),
        "div" => {
            if b == 0 {
                None
            } else {
                a.checked_div(b)
            }
        }
        _ => None,
    }
}

pub struct T23 {
    pub programs: u64,
    pub proved: u64,
    pub skipped: u64,
    pub unsupported: BTreeMap<String, u64>,
    pub inconclusive: Vec<String>,
    pub violations: Vec<Value>,
    pub samples: Vec<Value>,
    pub by_kind: BTreeMap<String, (u64, u64)>,
}

impl T23 {
    fn new() -> T23 {
        T23 { programs: 0, proved: 0, skipped: 0, unsupported: BTreeMap::new(), inconclusive: vec![], violations: vec![], samples: vec![], by_kind: BTreeMap::new() }
    }
    fn ok(&mut self, kind: &str, desc: impl Fn() -> String) {
        self.programs += 1;
        self.proved += 1;
        let e = self.by_kind.entry(kind.to_string()).or_insert((0, 0));
        e.0 += 1;
        e.1 += 1;
        if self.samples.len() < 14 && self.proved % 211 == 1 {
            self.samples.push(json!({"kind": kind, "program": desc(), "verdict": "unsat: every value pair is covered"}));
        }
    }
    fn other(&mut self, kind: &str) {
        self.programs += 1;
        self.by_kind.entry(kind.to_string()).or_insert((0, 0)).0 += 1;
    }
    fn uns(&mut self, w: String) {
        *self.unsupported.entry(w.chars().take(70).collect()).or_insert(0) += 1;
    }
}

fn vals(duo: &mut Duo, names: &[&str]) -> Vec<i128> {
    let v = duo.get_values(&names.iter().map(|s| s.to_string()).collect::<Vec<_>>());
    names
        .iter()
        .map(|nm| {
            let s = v.iter().find(|(k, _)| k == nm).map(|(_, x)| x.clone()).unwrap_or_default();
            let s = s.trim();
            if let Some(inner) = s.strip_prefix("(-") {
                -(inner.trim_end_matches(')').trim().parse::<i128>().unwrap_or(0))
            } else {
                s.parse::<i128>().unwrap_or(0)
            }
        })
        .collect()
}

/// run one query: declarations + assertions; on sat read (a, b) and let `confirm` re-check it natively
fn query(duo: &mut Duo, t: &mut T23, kind: &str, desc: &dyn Fn() -> String, body: &str, confirm: &dyn Fn(i128, i128) -> bool, sig: String) {
    duo.push();
    duo.send("(declare-const a Int)\n(declare-const b Int)\n");
    duo.send(body);
    match duo.check() {
        Verdict::Unsat => t.ok(kind, desc),
        Verdict::Unknown => {
            t.other(kind);
            if t.inconclusive.len() < 40 {
                t.inconclusive.push(format!("[{kind}] {}: solver undecided", desc()));
            }
        }
        Verdict::Sat => {
            t.other(kind);
            let v = vals(duo, &["a", "b"]);
            if confirm(v[0], v[1]) {
                t.violations.push(json!({"kind": kind, "original": desc(), "rewritten": "value pair outside the returned interval", "row": {"a": {"type": "value", "value": v[0].to_string()}, "b": {"type": "value", "value": v[1].to_string()}},
                    "original_value": format!("a = {}, b = {}", v[0], v[1]), "rewritten_value": "not covered", "signature": sig}));
            } else if t.inconclusive.len() < 40 {
                t.inconclusive.push(format!("[{kind}] {}: solver model a={} b={} did not reproduce with i128 arithmetic", desc(), v[0], v[1]));
            }
        }
    }
    duo.pop();
}

fn fmt_iv(iv: &Iv) -> String {
    format!("[{}, {}]", iv.lo.map(|v| v.to_string()).unwrap_or("-inf".into()), iv.hi.map(|v| v.to_string()).unwrap_or("+inf".into()))
}

fn intervals(ty: &Ty) -> Vec<Iv> {
    let (lo, hi) = ty.min_max();
    let mut pts: Vec<i128> = vec![lo, lo + 1, 0, 1, 2, 3, 7, hi - 1, hi];
    if ty.signed() {
        pts.extend([-1, -2, -7]);
    }
    pts.sort();
    pts.dedup();
    let mut out = vec![];
    let ends: Vec<Option<i128>> = pts.iter().map(|v| Some(*v)).chain([None]).collect();
    for l in &ends {
        for h in &ends {
            if let (Some(a), Some(b)) = (l, h) {
                if a > b {
                    continue;
                }
            }
            out.push(Iv { lo: *l, hi: *h });
        }
    }
    out
}

fn run_pair(duo: &mut Duo, t: &mut T23, ty: &Ty, a: &Iv, b: &Iv, which: &[&str]) {
    let (Some(ia), Some(ib)) = (mk(ty, a), mk(ty, b)) else {
        t.skipped += 1;
        return;
    };
    // what the real code sees after standardisation (e.g. unsigned NULL lower bound -> 0)
    let (Ok(da), Ok(db)) = (decode(ty, &ia), decode(ty, &ib)) else {
        t.uns("endpoint decode".into());
        return;
    };
    let base = format!("{TDIV}(assert {})\n(assert {})\n", member("a", ty, &da), member("b", ty, &db));
    for w in which {
        match *w {
            "add" | "sub" | "mul" | "div" => {
                let r = match *w {
                    "add" => ia.add(&ib),
                    "sub" => ia.sub(&ib),
                    "mul" => ia.mul(&ib),
                    _ => ia.div(&ib),
                };
                let Ok(r) = r else {
                    t.skipped += 1;
                    continue;
                };
                let Ok(dr) = decode(ty, &r) else {
                    t.uns("result decode".into());
                    continue;
                };
                let e = match *w {
                    "add" => "(+ a b)".to_string(),
                    "sub" => "(- a b)".to_string(),
                    "mul" => "(* a b)".to_string(),
                    _ => "(tdiv a b)".to_string(),
                };
                let nz = if *w == "div" { "(assert (not (= b 0)))\n" } else { "" };
                let body = format!("{base}{nz}(define-fun r () Int {e})\n(assert {})\n(assert (not {}))\n", in_type("r", ty), member("r", ty, &dr));
                let (op, tyc, drc) = (w.to_string(), ty.clone(), dr.clone());
                let (dac, dbc) = (da.clone(), db.clone());
                query(
                    duo,
                    t,
                    &format!("{w}/{ty}"),
                    &|| format!("{} {w} {} = {} ({ty})", fmt_iv(&da), fmt_iv(&db), fmt_iv(&dr)),
                    &body,
                    &move |x, y| {
                        member_i128(x, &tyc, &dac)
                            && member_i128(y, &tyc, &dbc)
                            && match exact(&op, x, y) {
                                Some(r) => r >= tyc.min_max().0 && r <= tyc.min_max().1 && !member_i128(r, &tyc, &drc),
                                None => false,
                            }
                    },
                    format!("interval {w}"),
                );
            }
            "gt" | "gt_eq" | "lt" | "lt_eq" | "equal" => {
                let r = match *w {
                    "gt" => ia.gt(&ib),
                    "gt_eq" => ia.gt_eq(&ib),
                    "lt" => ia.lt(&ib),
                    "lt_eq" => ia.lt_eq(&ib),
                    _ => ia.equal(&ib),
                };
                let Ok(r) = r else {
                    t.skipped += 1;
                    continue;
                };
                let Ok((bl, bh)) = decode_bool(&r) else {
                    t.uns("boolean result".into());
                    continue;
                };
                let rel = match *w {
                    "gt" => "(> a b)",
                    "gt_eq" => "(>= a b)",
                    "lt" => "(< a b)",
                    "lt_eq" => "(<= a b)",
                    _ => "(= a b)",
                };
                // truth value outside [bl, bh]
                let bad = match (bl, bh) {
                    (false, true) => "false".to_string(),
                    (true, true) => format!("(not {rel})"),
                    (false, false) => rel.to_string(),
                    (true, false) => "true".to_string(),
                };
                let body = format!("{base}(assert {bad})\n");
                let (op, tyc, dac, dbc) = (w.to_string(), ty.clone(), da.clone(), db.clone());
                query(
                    duo,
                    t,
                    &format!("{w}/{ty}"),
                    &|| format!("{} {w} {} = [{bl}, {bh}] ({ty})", fmt_iv(&da), fmt_iv(&db)),
                    &body,
                    &move |x, y| {
                        let truth = match op.as_str() {
                            "gt" => x > y,
                            "gt_eq" => x >= y,
                            "lt" => x < y,
                            "lt_eq" => x <= y,
                            _ => x == y,
                        };
                        member_i128(x, &tyc, &dac) && member_i128(y, &tyc, &dbc) && ((truth && !bh) || (!truth && bl))
                    },
                    format!("interval {w}"),
                );
            }
            "intersect" | "union" => {
                // b is used as the element; a ranges over A (intersect: a in A and a in B)
                let (body, dr, none): (String, Option<Iv>, bool) = if *w == "intersect" {
                    match ia.intersect(&ib) {
                        Ok(Some(r)) => match decode(ty, &r) {
                            Ok(dr) => (format!("(assert {})\n(assert {})\n(assert (not {}))\n", member("a", ty, &da), member("a", ty, &db), member("a", ty, &dr)), Some(dr), false),
                            Err(_) => continue,
                        },
                        Ok(None) => (format!("(assert {})\n(assert {})\n", member("a", ty, &da), member("a", ty, &db)), None, true),
                        Err(_) => {
                            t.skipped += 1;
                            continue;
                        }
                    }
                } else {
                    match ia.union(&ib) {
                        Ok(r) => match decode(ty, &r) {
                            Ok(dr) => (format!("(assert (or {} {}))\n(assert (not {}))\n", member("a", ty, &da), member("a", ty, &db), member("a", ty, &dr)), Some(dr), false),
                            Err(_) => continue,
                        },
                        Err(_) => {
                            t.skipped += 1;
                            continue;
                        }
                    }
                };
                let (tyc, dac, dbc, drc, inter) = (ty.clone(), da.clone(), db.clone(), dr.clone(), *w == "intersect");
                query(
                    duo,
                    t,
                    &format!("{w}/{ty}"),
                    &|| format!("{} {w} {} = {} ({ty})", fmt_iv(&da), fmt_iv(&db), if none { "None".to_string() } else { fmt_iv(dr.as_ref().unwrap()) }),
                    &body,
                    &move |x, _| {
                        let (ina, inb) = (member_i128(x, &tyc, &dac), member_i128(x, &tyc, &dbc));
                        let src = if inter { ina && inb } else { ina || inb };
                        src && drc.as_ref().map(|r| !member_i128(x, &tyc, r)).unwrap_or(true)
                    },
                    format!("interval {w}"),
                );
            }
            "contains" => {
                let Ok(r) = ia.contains(&ib) else {
                    t.skipped += 1;
                    continue;
                };
                let Ok((bl, bh)) = decode_bool(&r) else { continue };
                // [true,true]: every b in B is in A; [false,false]: no b in B is in A
                let bad = match (bl, bh) {
                    (true, true) => format!("(not {})", member("b", ty, &da)),
                    (false, false) => member("b", ty, &da),
                    _ => "false".to_string(),
                };
                let body = format!("(assert {})\n(assert {bad})\n", member("b", ty, &db));
                let (tyc, dac, dbc) = (ty.clone(), da.clone(), db.clone());
                query(
                    duo,
                    t,
                    &format!("contains/{ty}"),
                    &|| format!("{} contains {} = [{bl}, {bh}] ({ty})", fmt_iv(&da), fmt_iv(&db)),
                    &body,
                    &move |_, y| member_i128(y, &tyc, &dbc) && ((bl && bh && !member_i128(y, &tyc, &dac)) || (!bl && !bh && member_i128(y, &tyc, &dac))),
                    "interval contains".to_string(),
                );
            }
            "satisfy_greater" | "satisfy_greater_eq" => {
                let strict = *w == "satisfy_greater";
                let Ok(r) = satisfy_greater(&ia, &ib, strict) else {
                    t.skipped += 1;
                    continue;
                };
                let rel = if strict { "(> a b)" } else { "(>= a b)" };
                let (body, shr): (String, Option<(Iv, Iv)>) = match &r {
                    None => (format!("{base}(assert {rel})\n"), None),
                    Some((l2, r2)) => match (decode(ty, l2), decode(ty, r2)) {
                        (Ok(dl), Ok(dr)) => (
                            format!("{base}(assert {rel})\n(assert (or (not {}) (not {})))\n", member("a", ty, &dl), member("b", ty, &dr)),
                            Some((dl, dr)),
                        ),
                        _ => continue,
                    },
                };
                let (tyc, dac, dbc, sh) = (ty.clone(), da.clone(), db.clone(), shr.clone());
                query(
                    duo,
                    t,
                    &format!("{w}/{ty}"),
                    &|| format!("{w}({}, {}) = {} ({ty})", fmt_iv(&da), fmt_iv(&db), shr.as_ref().map(|(l, r)| format!("({}, {})", fmt_iv(l), fmt_iv(r))).unwrap_or("infeasible".into())),
                    &body,
                    &move |x, y| {
                        let sat = if strict { x > y } else { x >= y };
                        member_i128(x, &tyc, &dac) && member_i128(y, &tyc, &dbc) && sat && sh.as_ref().map(|(l, r)| !member_i128(x, &tyc, l) || !member_i128(y, &tyc, r)).unwrap_or(true)
                    },
                    format!("{w}"),
                );
            }
            _ => {}
        }
    }
}

/// propagate_arithmetic / propagate_comparison: parent interval P, children A, B
fn run_propagate(duo: &mut Duo, t: &mut T23, ty: &Ty, p: &Iv, a: &Iv, b: &Iv) {
    let (Some(ip), Some(ia), Some(ib)) = (mk(ty, p), mk(ty, a), mk(ty, b)) else {
        t.skipped += 1;
        return;
    };
    let (Ok(dp), Ok(da), Ok(db)) = (decode(ty, &ip), decode(ty, &ia), decode(ty, &ib)) else { return };
    for (op, e, name) in [(Operator::Plus, "(+ a b)", "add"), (Operator::Minus, "(- a b)", "sub"), (Operator::Multiply, "(* a b)", "mul"), (Operator::Divide, "(tdiv a b)", "div")] {
        let r = match std::panic::catch_unwind(std::panic::AssertUnwindSafe(|| propagate_arithmetic(&op, &ip, &ia, &ib))) {
            Ok(Ok(r)) => r,
            _ => {
                t.skipped += 1;
                continue;
            }
        };
        let nz = if name == "div" { "(assert (not (= b 0)))\n" } else { "" };
        let pre = format!("{TDIV}(assert {})\n(assert {})\n{nz}(define-fun r () Int {e})\n(assert {})\n(assert {})\n", member("a", ty, &da), member("b", ty, &db), in_type("r", ty), member("r", ty, &dp));
        let (body, sh): (String, Option<(Iv, Iv)>) = match &r {
            None => (pre.clone(), None),
            Some((l2, r2)) => match (decode(ty, l2), decode(ty, r2)) {
                (Ok(dl), Ok(dr)) => (format!("{pre}(assert (or (not {}) (not {})))\n", member("a", ty, &dl), member("b", ty, &dr)), Some((dl, dr))),
                _ => continue,
            },
        };
        let (tyc, dac, dbc, dpc, shc, nm) = (ty.clone(), da.clone(), db.clone(), dp.clone(), sh.clone(), name.to_string());
        query(
            duo,
            t,
            &format!("propagate_{name}/{ty}"),
            &|| format!("propagate_arithmetic({name}, parent {}, {}, {}) = {} ({ty})", fmt_iv(&dp), fmt_iv(&da), fmt_iv(&db), sh.as_ref().map(|(l, r)| format!("({}, {})", fmt_iv(l), fmt_iv(r))).unwrap_or("infeasible".into())),
            &body,
            &move |x, y| {
                member_i128(x, &tyc, &dac)
                    && member_i128(y, &tyc, &dbc)
                    && match exact(&nm, x, y) {
                        Some(r) => r >= tyc.min_max().0 && r <= tyc.min_max().1 && member_i128(r, &tyc, &dpc) && shc.as_ref().map(|(l, rr)| !member_i128(x, &tyc, l) || !member_i128(y, &tyc, rr)).unwrap_or(true),
                        None => false,
                    }
            },
            format!("propagate_arithmetic {name}"),
        );
    }
}

fn run_propagate_cmp(duo: &mut Duo, t: &mut T23, ty: &Ty, a: &Iv, b: &Iv) {
    let (Some(ia), Some(ib)) = (mk(ty, a), mk(ty, b)) else { return };
    let (Ok(da), Ok(db)) = (decode(ty, &ia), decode(ty, &ib)) else { return };
    for (op, rel) in [(Operator::Eq, "(= a b)"), (Operator::Gt, "(> a b)"), (Operator::GtEq, "(>= a b)"), (Operator::Lt, "(< a b)"), (Operator::LtEq, "(<= a b)")] {
        for parent_true in [true, false] {
            let parent = if parent_true { Interval::TRUE } else { Interval::FALSE };
            let Ok(r) = propagate_comparison(&op, &parent, &ia, &ib) else {
                t.skipped += 1;
                continue;
            };
            // `None` for Eq/FALSE means "cannot propagate" (documented TODO), not infeasible
            if r.is_none() && op == Operator::Eq && !parent_true {
                continue;
            }
            let want = if parent_true { rel.to_string() } else { format!("(not {rel})") };
            let pre = format!("(assert {})\n(assert {})\n(assert {want})\n", member("a", ty, &da), member("b", ty, &db));
            let (body, sh): (String, Option<(Iv, Iv)>) = match &r {
                None => (pre.clone(), None),
                Some((l2, r2)) => match (decode(ty, l2), decode(ty, r2)) {
                    (Ok(dl), Ok(dr)) => (format!("{pre}(assert (or (not {}) (not {})))\n", member("a", ty, &dl), member("b", ty, &dr)), Some((dl, dr))),
                    _ => continue,
                },
            };
            let (tyc, dac, dbc, shc, opc) = (ty.clone(), da.clone(), db.clone(), sh.clone(), op);
            query(
                duo,
                t,
                &format!("propagate_comparison/{ty}"),
                &|| format!("propagate_comparison({op}, parent {parent_true}, {}, {}) = {} ({ty})", fmt_iv(&da), fmt_iv(&db), sh.as_ref().map(|(l, r)| format!("({}, {})", fmt_iv(l), fmt_iv(r))).unwrap_or("infeasible".into())),
                &body,
                &move |x, y| {
                    let truth = match opc {
                        Operator::Eq => x == y,
                        Operator::Gt => x > y,
                        Operator::GtEq => x >= y,
                        Operator::Lt => x < y,
                        _ => x <= y,
                    };
                    member_i128(x, &tyc, &dac) && member_i128(y, &tyc, &dbc) && truth == parent_true && shc.as_ref().map(|(l, r)| !member_i128(x, &tyc, l) || !member_i128(y, &tyc, r)).unwrap_or(true)
                },
                format!("propagate_comparison {op} parent={parent_true}"),
            );
        }
    }
}

/// ExprIntervalGraph on `a <arith> b <cmp> k`: evaluate_bounds and update_ranges(TRUE)
fn run_graph(duo: &mut Duo, t: &mut T23, ty: &Ty, a: &Iv, b: &Iv, arith: Operator, cmp: Operator, k: i128) {
    let (Some(ia), Some(ib)) = (mk(ty, a), mk(ty, b)) else { return };
    let (Ok(da), Ok(db)) = (decode(ty, &ia), decode(ty, &ib)) else { return };
    let schema = Schema::new(vec![Field::new("a", lx::ty_to_dt(ty), true), Field::new("b", lx::ty_to_dt(ty), true)]);
    let (ca, cb) = (pcol("a", &schema).unwrap(), pcol("b", &schema).unwrap());
    let sum: Arc<dyn PhysicalExpr> = Arc::new(BinaryExpr::new(ca.clone(), arith, cb.clone()));
    let expr: Arc<dyn PhysicalExpr> = Arc::new(BinaryExpr::new(sum, cmp, plit(lx::lit_to_scalar(ty, Some(k)))));
    let r = std::panic::catch_unwind(std::panic::AssertUnwindSafe(|| -> Result<(PropagationResult, Vec<(usize, Interval)>), String> {
        let mut g = ExprIntervalGraph::try_new(expr.clone(), &schema).map_err(|e| e.to_string())?;
        let idx = g.gather_node_indices(&[ca.clone(), cb.clone()]);
        let mut leaf = vec![(idx[0].1, ia.clone()), (idx[1].1, ib.clone())];
        let res = g.update_ranges(&mut leaf, Interval::TRUE).map_err(|e| e.to_string())?;
        Ok((res, leaf))
    }));
    let (res, leaf) = match r {
        Ok(Ok(x)) => x,
        _ => {
            t.skipped += 1;
            return;
        }
    };
    let e = match arith {
        Operator::Plus => "(+ a b)",
        Operator::Minus => "(- a b)",
        _ => "(* a b)",
    };
    let rel = match cmp {
        Operator::Gt => format!("(> r {})", n(k)),
        Operator::GtEq => format!("(>= r {})", n(k)),
        Operator::Lt => format!("(< r {})", n(k)),
        Operator::LtEq => format!("(<= r {})", n(k)),
        _ => format!("(= r {})", n(k)),
    };
    let pre = format!("(assert {})\n(assert {})\n(define-fun r () Int {e})\n(assert {})\n(assert {rel})\n", member("a", ty, &da), member("b", ty, &db), in_type("r", ty));
    let (body, sh): (String, Option<(Iv, Iv)>) = match res {
        PropagationResult::CannotPropagate => return,
        PropagationResult::Infeasible => (pre, None),
        PropagationResult::Success => match (decode(ty, &leaf[0].1), decode(ty, &leaf[1].1)) {
            (Ok(dl), Ok(dr)) => (format!("{pre}(assert (or (not {}) (not {})))\n", member("a", ty, &dl), member("b", ty, &dr)), Some((dl, dr))),
            _ => return,
        },
    };
    let (tyc, dac, dbc, shc) = (ty.clone(), da.clone(), db.clone(), sh.clone());
    query(
        duo,
        t,
        &format!("graph_update_ranges/{ty}"),
        &|| format!("update_ranges(a {arith} b {cmp} {k}; a in {}, b in {}) = {} ({ty})", fmt_iv(&da), fmt_iv(&db), sh.as_ref().map(|(l, r)| format!("({}, {})", fmt_iv(l), fmt_iv(r))).unwrap_or("infeasible".into())),
        &body,
        &move |x, y| {
            let r = match arith {
                Operator::Plus => x.checked_add(y),
                Operator::Minus => x.checked_sub(y),
                _ => x.checked_mul(y),
            };
            let Some(r) = r else { return false };
            let truth = match cmp {
                Operator::Gt => r > k,
                Operator::GtEq => r >= k,
                Operator::Lt => r < k,
                Operator::LtEq => r <= k,
                _ => r == k,
            };
            member_i128(x, &tyc, &dac) && member_i128(y, &tyc, &dbc) && r >= tyc.min_max().0 && r <= tyc.min_max().1 && truth && shc.as_ref().map(|(l, rr)| !member_i128(x, &tyc, l) || !member_i128(y, &tyc, rr)).unwrap_or(true)
        },
        format!("ExprIntervalGraph::update_ranges {arith} {cmp}"),
    );
}

fn run_cast(duo: &mut Duo, t: &mut T23, from: &Ty, to: &Ty, a: &Iv) {
    let Some(ia) = mk(from, a) else { return };
    let Ok(da) = decode(from, &ia) else { return };
    let Ok(r) = ia.cast_to(&lx::ty_to_dt(to), &CastOptions::default()) else {
        t.skipped += 1;
        return;
    };
    let Ok(dr) = decode(to, &r) else {
        t.uns("cast result decode".into());
        return;
    };
    let body = format!("(assert {})\n(assert {})\n(assert (not {}))\n", member("a", from, &da), in_type("a", to), member("a", to, &dr));
    let (f, tt, dac, drc) = (from.clone(), to.clone(), da.clone(), dr.clone());
    query(
        duo,
        t,
        &format!("cast_to/{from}->{to}"),
        &|| format!("{}.cast_to({to}) = {} (from {from})", fmt_iv(&da), fmt_iv(&dr)),
        &body,
        &move |x, _| member_i128(x, &f, &dac) && x >= tt.min_max().0 && x <= tt.min_max().1 && !member_i128(x, &tt, &drc),
        format!("interval cast_to {from}->{to}"),
    );
}

pub fn run(thorough: bool, seed: u64, threads: usize) -> Value {
    let t0 = std::time::Instant::now();
    let timeout_ms = if thorough { 60000 } else { 15000 };
    let tys = if thorough {
        vec![gen::i(8, true), gen::i(32, true), gen::i(64, true), gen::i(8, false), gen::i(64, false), gen::i(16, true), gen::i(32, false)]
    } else {
        vec![gen::i(8, true), gen::i(32, true), gen::i(64, true), gen::i(8, false), gen::i(64, false)]
    };
    // work items are (type index, kind, pair index) generated per thread from a seeded shuffle
    #[derive(Clone)]
    enum Item {
        Pair(Ty, Iv, Iv, Vec<&'static str>),
        Prop(Ty, Iv, Iv, Iv),
        PropCmp(Ty, Iv, Iv),
        Graph(Ty, Iv, Iv, Operator, Operator, i128),
        Cast(Ty, Ty, Iv),
    }
    let mut items: Vec<Item> = vec![];
    let mut rng = gen::Rng::new(seed ^ 0xC23);
    let all_ops: Vec<&'static str> = vec!["add", "sub", "mul", "div", "gt", "gt_eq", "lt", "lt_eq", "equal", "intersect", "union", "contains", "satisfy_greater", "satisfy_greater_eq"];
    for ty in &tys {
        let ivs = intervals(ty);
        let mut pairs: Vec<(Iv, Iv)> = vec![];
        for a in &ivs {
            for b in &ivs {
                pairs.push((a.clone(), b.clone()));
            }
        }
        rng.shuffle(&mut pairs);
        let np = if thorough { 3000 } else { 260 };
        for (a, b) in pairs.iter().take(np) {
            items.push(Item::Pair(ty.clone(), a.clone(), b.clone(), all_ops.clone()));
        }
        let npr = if thorough { 1500 } else { 120 };
        for j in 0..npr {
            let (a, b) = &pairs[(j * 7 + 3) % pairs.len()];
            let p = rng.pick(&ivs).clone();
            items.push(Item::Prop(ty.clone(), p, a.clone(), b.clone()));
            items.push(Item::PropCmp(ty.clone(), a.clone(), b.clone()));
            let arith = *rng.pick(&[Operator::Plus, Operator::Minus]);
            let cmp = *rng.pick(&[Operator::Gt, Operator::GtEq, Operator::Lt, Operator::LtEq, Operator::Eq]);
            let (lo, hi) = ty.min_max();
            let k = *rng.pick(&[0i128, 1, 5, lo, hi, hi - 1, lo + 1]);
            items.push(Item::Graph(ty.clone(), a.clone(), b.clone(), arith, cmp, k));
        }
        for to in &tys {
            if to != ty {
                for a in ivs.iter().step_by(if thorough { 1 } else { 5 }) {
                    items.push(Item::Cast(ty.clone(), to.clone(), a.clone()));
                }
            }
        }
    }
    rng.shuffle(&mut items);
    let chunks: Vec<Vec<Item>> = {
        let mut c: Vec<Vec<Item>> = (0..threads).map(|_| vec![]).collect();
        for (i, p) in items.into_iter().enumerate() {
            c[i % threads].push(p);
        }
        c
    };
    let mut total = T23::new();
    let (mut queries, mut secs, mut errors, mut disag) = (0u64, 0.0f64, 0u64, 0u64);
    std::thread::scope(|s| {
        let hs: Vec<_> = chunks
            .iter()
            .map(|chunk| {
                s.spawn(move || {
                    let mut duo = Duo::new(timeout_ms, true);
                    let mut t = T23::new();
                    for it in chunk {
                        let r = std::panic::catch_unwind(std::panic::AssertUnwindSafe(|| match it {
                            Item::Pair(ty, a, b, ops) => run_pair(&mut duo, &mut t, ty, a, b, ops),
                            Item::Prop(ty, p, a, b) => run_propagate(&mut duo, &mut t, ty, p, a, b),
                            Item::PropCmp(ty, a, b) => run_propagate_cmp(&mut duo, &mut t, ty, a, b),
                            Item::Graph(ty, a, b, ar, cm, k) => run_graph(&mut duo, &mut t, ty, a, b, *ar, *cm, *k),
                            Item::Cast(f, to, a) => run_cast(&mut duo, &mut t, f, to, a),
                        }));
                        if r.is_err() {
                            t.uns("panic in the interval code or driver".into());
                            duo = Duo::new(timeout_ms, true);
                        }
                    }
                    (t, duo.queries(), duo.secs(), duo.errors(), duo.disagreements)
                })
            })
            .collect();
        for h in hs {
            let (t, q, ss, e, d) = h.join().unwrap();
            total.programs += t.programs;
            total.proved += t.proved;
            total.skipped += t.skipped;
            for (k, v) in t.unsupported {
                *total.unsupported.entry(k).or_insert(0) += v;
            }
            total.inconclusive.extend(t.inconclusive);
            total.violations.extend(t.violations);
            total.samples.extend(t.samples);
            for (k, v) in t.by_kind {
                let e = total.by_kind.entry(k).or_insert((0, 0));
                e.0 += v.0;
                e.1 += v.1;
            }
            queries += q;
            secs += ss;
            errors += e;
            disag += d;
        }
    });
    total.inconclusive.truncate(40);
    let _ = apply_operator;
    json!({
        "programs": total.programs, "changed": total.programs, "equivalent": total.proved, "trivial": 0, "unchanged": 0, "skipped_operation_returned_error": total.skipped,
        "unsupported": total.unsupported, "inconclusive": total.inconclusive, "violations": total.violations, "samples": total.samples,
        "families": total.by_kind.iter().map(|(k, v)| (k.clone(), json!({"programs": v.0, "proved_equivalent": v.1}))).collect::<BTreeMap<_, _>>(),
        "distinct_rewrites": total.proved,
        "grid": {"templates": 0, "points": 0, "mismatches": [], "unsupported": []},
        "solver": {"queries": queries, "secs": secs, "errors": errors, "disagreements": disag, "solvers": ["z3 5.1.0 (z3-new)", "z3 4.8.12"]},
        "wall_s": t0.elapsed().as_secs_f64(),
    })
}
