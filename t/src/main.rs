mod c03;
mod c04;
mod c22;
mod c23;
mod c3x;
mod c44;
mod c47;
mod enc;
mod gen;
mod grid;
mod ir;
mod lx;
mod plan;
mod pq;
mod px;
mod smt;
mod tvq;

use serde_json::json;

fn main() {
    // panics inside datafusion (caught per program) should not flood stderr
    std::panic::set_hook(Box::new(|info| {
        if std::env::var("VERIF_DEBUG").is_ok() {
            eprintln!("panic: {info}");
        }
    }));
    let args: Vec<String> = std::env::args().collect();
    let cmd = args.get(1).map(|s| s.as_str()).unwrap_or("");
    let thorough = std::env::var("VERIF_TIER").map(|t| t == "thorough").unwrap_or(false);
    match cmd {
        "grid" => {
            let mut duo = smt::Duo::new(20000, false);
            let t0 = std::time::Instant::now();
            let rep = grid::validate(&mut duo, thorough);
            println!(
                "{}",
                json!({"templates": rep.templates, "points": rep.points, "mismatches": rep.mismatches, "unsupported": rep.unsupported,
                       "secs": t0.elapsed().as_secs_f64(), "solver_secs": duo.secs()})
            );
        }
        "c04" => {
            let seed: u64 = std::env::var("VERIF_SEED").ok().and_then(|s| s.parse().ok()).unwrap_or(0);
            let threads: usize = std::env::var("VERIF_THREADS").ok().and_then(|s| s.parse().ok()).unwrap_or(8);
            let out = c04::run(thorough, seed, threads);
            println!("{}", out);
        }
        "c03" => {
            let seed: u64 = std::env::var("VERIF_SEED").ok().and_then(|s| s.parse().ok()).unwrap_or(0);
            let threads: usize = std::env::var("VERIF_THREADS").ok().and_then(|s| s.parse().ok()).unwrap_or(8);
            println!("{}", c03::run(thorough, seed, threads));
        }
        "c38" | "c41" | "c48" | "c37" => {
            let seed: u64 = std::env::var("VERIF_SEED").ok().and_then(|s| s.parse().ok()).unwrap_or(0);
            let threads: usize = std::env::var("VERIF_THREADS").ok().and_then(|s| s.parse().ok()).unwrap_or(8);
            let v = match cmd {
                "c38" => c3x::run_c38(thorough, seed, threads),
                "c41" => c3x::run_c41(thorough, seed, threads),
                "c48" => c3x::run_c48(thorough, seed, threads),
                _ => c3x::run_c37(thorough, seed, threads),
            };
            println!("{}", v);
        }
        "c22" => {
            let seed: u64 = std::env::var("VERIF_SEED").ok().and_then(|s| s.parse().ok()).unwrap_or(0);
            let threads: usize = std::env::var("VERIF_THREADS").ok().and_then(|s| s.parse().ok()).unwrap_or(8);
            println!("{}", c22::run(thorough, seed, threads));
        }
        "c23" => {
            let seed: u64 = std::env::var("VERIF_SEED").ok().and_then(|s| s.parse().ok()).unwrap_or(0);
            let threads: usize = std::env::var("VERIF_THREADS").ok().and_then(|s| s.parse().ok()).unwrap_or(8);
            println!("{}", c23::run(thorough, seed, threads));
        }
        "sqlrun" => {
            let w = pq::World::new(pq::default_tables());
            let data = vec![("t1".to_string(), vec![vec![Some(0), Some(2)], vec![Some(1), Some(5)]]), ("t2".to_string(), vec![vec![Some(0), Some(7)]]), ("t3".to_string(), vec![])];
            println!("{:?}", w.run_sql_normally(&args[2], &data));
        }
        "c44" => {
            let seed: u64 = std::env::var("VERIF_SEED").ok().and_then(|s| s.parse().ok()).unwrap_or(0);
            let threads: usize = std::env::var("VERIF_THREADS").ok().and_then(|s| s.parse().ok()).unwrap_or(8);
            println!("{}", c44::run(thorough, seed, threads));
        }
        "c47" => {
            let seed: u64 = std::env::var("VERIF_SEED").ok().and_then(|s| s.parse().ok()).unwrap_or(0);
            let threads: usize = std::env::var("VERIF_THREADS").ok().and_then(|s| s.parse().ok()).unwrap_or(8);
            println!("{}", c47::run(thorough, seed, threads));
        }
        _ => {
            eprintln!("usage: tv <grid|c04|...>");
            std::process::exit(2);
        }
    }
}
