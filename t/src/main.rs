fn main(){ println!("tv"); }
