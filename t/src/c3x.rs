//! C38 (plan -> SQL text -> plan), C41 (bound parameters vs literals), C48 (DataFrame vs SQL) and C37
//! (Substrait round trip): the same bounded-table plan equivalence query as C03, applied to other
//! plan-to-plan translations of the real code.

use crate::c03::{programs, T03};
use crate::gen::Rng;
use crate::pq::{default_tables, plans_equivalent, World};
use crate::smt::Duo;
use datafusion::common::{ParamValues, ScalarValue};
use datafusion::logical_expr::{col, lit, JoinType, LogicalPlan};
use datafusion::prelude::DataFrame;
use serde_json::{json, Value};

fn finish(t: &mut T03, grid: &crate::grid::GridReport, duos: (u64, f64, u64, u64), t0: std::time::Instant, nrows: usize) -> Value {
    t.inconclusive.truncate(30);
    let mut v = t.to_json(Some(grid), json!({"queries": duos.0, "secs": duos.1, "errors": duos.2, "disagreements": duos.3, "solvers": ["z3 5.1.0 (z3-new)", "z3 4.8.12"]}), t0.elapsed().as_secs_f64());
    v["rows_per_table"] = json!(nrows);
    v
}

/// generic driver: `work(world, duo, tally, item)` over items, chunked over threads
fn drive<I: Sync + Send>(thorough: bool, items: Vec<I>, threads: usize, work: &(dyn Fn(&World, &mut Duo, &mut T03, &I, usize) + Sync)) -> Value {
    let t0 = std::time::Instant::now();
    let timeout_ms = if thorough { 60000 } else { 30000 };
    let nrows = if thorough { 3 } else { 2 };
    let mut duo0 = Duo::new(timeout_ms, false);
    let grid = crate::grid::validate(&mut duo0, false);
    drop(duo0);
    let mut chunks: Vec<Vec<&I>> = (0..threads).map(|_| vec![]).collect();
    for (i, p) in items.iter().enumerate() {
        chunks[i % threads].push(p);
    }
    let mut total = T03::new();
    let (mut q, mut s, mut e, mut d) = (0u64, 0.0f64, 0u64, 0u64);
    std::thread::scope(|sc| {
        let hs: Vec<_> = chunks
            .iter()
            .map(|chunk| {
                sc.spawn(move || {
                    let w = World::new(default_tables());
                    let mut duo = Duo::new(timeout_ms, true);
                    let mut t = T03::new();
                    for it in chunk {
                        let r = std::panic::catch_unwind(std::panic::AssertUnwindSafe(|| work(&w, &mut duo, &mut t, it, nrows)));
                        if r.is_err() {
                            *t.unsupported.entry("panic while processing the program".into()).or_insert(0) += 1;
                            duo = Duo::new(timeout_ms, true);
                        }
                    }
                    (t, duo.queries(), duo.secs(), duo.errors(), duo.disagreements)
                })
            })
            .collect();
        for h in hs {
            let (t, a, b, c, dd) = h.join().unwrap();
            total.merge(t);
            q += a;
            s += b;
            e += c;
            d += dd;
        }
    });
    finish(&mut total, &grid, (q, s, e, d), t0, nrows)
}

// ------------------------------------------------------------------------------------------------ C38

/// Root cause class of an unparser violation, read off the plan that was unparsed (the trigger of the
/// defective translation), so that recorded findings are keyed by cause and not by query text.
fn unparse_cause(plan: &LogicalPlan, out: &crate::tvq::Outcome) -> String {
    use datafusion::common::tree_node::{TreeNode, TreeNodeRecursion};
    use datafusion::common::NullEquality;
    let (mut empty, mut scan_filter, mut outer, mut nulleq, mut dup_group, mut alias) = (false, false, false, false, false, false);
    let _ = plan.apply(|n| {
        match n {
            LogicalPlan::EmptyRelation(_) => empty = true,
            LogicalPlan::TableScan(ts) if !ts.filters.is_empty() => scan_filter = true,
            LogicalPlan::Join(j) => {
                if j.join_type != JoinType::Inner {
                    outer = true;
                    // a Filter directly below an outer join (the optimizer pushed a WHERE conjunct to one side)
                    for side in [&j.left, &j.right] {
                        let mut p: &LogicalPlan = side.as_ref();
                        loop {
                            match p {
                                LogicalPlan::Filter(_) => {
                                    scan_filter = true;
                                    break;
                                }
                                LogicalPlan::SubqueryAlias(a) => p = a.input.as_ref(),
                                LogicalPlan::Projection(pr) => p = pr.input.as_ref(),
                                _ => break,
                            }
                        }
                    }
                }
                if j.null_equality == NullEquality::NullEqualsNull && !j.on.is_empty() {
                    nulleq = true;
                }
            }
            LogicalPlan::Aggregate(a) => {
                let mut seen = std::collections::HashSet::new();
                if a.group_expr.iter().any(|e| !seen.insert(e.to_string())) {
                    dup_group = true;
                }
            }
            LogicalPlan::SubqueryAlias(_) => alias = true,
            _ => {}
        }
        Ok(TreeNodeRecursion::Continue)
    });
    let mut schema_changed = matches!(out, crate::tvq::Outcome::Violation(v) if v["kind"] == "output schema changed");
    // root (below Sort / Limit / Filter) is an Aggregate without a Projection on top: the select list is emitted
    // as (aggregates, group keys)
    {
        let mut p = plan;
        loop {
            match p {
                LogicalPlan::Sort(s) => p = s.input.as_ref(),
                LogicalPlan::Limit(l) => p = l.input.as_ref(),
                LogicalPlan::Filter(f) => p = f.input.as_ref(),
                LogicalPlan::Aggregate(_) => {
                    schema_changed = true;
                    break;
                }
                _ => break,
            }
        }
    }
    if empty {
        "plan contains an EmptyRelation (emitted as a table-less SELECT)".into()
    } else if nulleq {
        "null-equal join key (IS NOT DISTINCT FROM) emitted as `=`".into()
    } else if scan_filter && outer {
        "filter below one side of an outer join is emitted in its ON clause".into()
    } else if dup_group {
        "duplicate GROUP BY key".into()
    } else if schema_changed {
        "output columns reordered or retyped".into()
    } else if alias {
        "plan with a subquery alias".into()
    } else {
        "other".into()
    }
}

pub fn run_c38(thorough: bool, seed: u64, threads: usize) -> Value {
    let progs = programs(thorough, seed);
    drive(thorough, progs, threads, &|w, duo, t, (fam, sql), nrows| {
        let Ok(analyzed) = w.analyzed(sql) else {
            t.plan_errors += 1;
            return;
        };
        let state = w.ctx.state();
        let mut variants: Vec<(&str, LogicalPlan)> = vec![("unoptimized", analyzed.clone())];
        if let Ok(opt) = state.optimize(&analyzed) {
            variants.push(("optimized", opt));
        }
        for (which, plan) in variants {
            let stmt = match std::panic::catch_unwind(std::panic::AssertUnwindSafe(|| datafusion::sql::unparser::plan_to_sql(&plan))) {
                Ok(Ok(s)) => s,
                _ => {
                    *t.unsupported.entry(format!("plan_to_sql declined the {which} plan")).or_insert(0) += 1;
                    continue;
                }
            };
            let text = stmt.to_string();
            let back = match w.analyzed(&text) {
                Ok(p) => p,
                Err(e) => {
                    // generated SQL that the engine itself cannot plan: the translation does not "mean the same"
                    t.programs += 1;
                    t.violations.push(json!({"kind": format!("unparse/{which}/{fam}"), "program": sql, "original": format!("{}", plan.display_indent()), "rewritten": text, "row": {},
                        "original_value": "plan", "rewritten_value": format!("generated SQL does not plan: {}", e.chars().take(300).collect::<String>()),
                        "signature": format!("unparser ({which} plan): generated SQL is rejected by the planner; {}", unparse_cause(&plan, &crate::tvq::Outcome::Equivalent))}));
                    continue;
                }
            };
            let out = plans_equivalent(duo, w, nrows, &plan, &back, false);
            let sig = format!("unparser ({which} plan): {}", unparse_cause(&plan, &out));
            t.handle(&format!("unparse-{which}/{fam}"), &format!("{sql}  ~>  {text}"), &plan, &back, out, sig);
        }
    })
}

// ------------------------------------------------------------------------------------------------ C41

/// (sql with placeholders, literal sql builder) templates; values substituted from the boundary set
fn param_templates() -> Vec<(&'static str, usize)> {
    vec![
        ("SELECT a, b FROM t1 WHERE a > $1", 1),
        ("SELECT a, b FROM t1 WHERE a = $1 OR b < $2", 2),
        ("SELECT a + $1 AS x FROM t1 WHERE b IS NOT NULL", 1),
        ("SELECT a FROM t1 WHERE a BETWEEN $1 AND $2", 2),
        ("SELECT a FROM t1 WHERE a IN ($1, $2)", 2),
        ("SELECT a, count(*) FROM t1 WHERE b <> $1 GROUP BY a HAVING count(*) >= $2", 2),
        ("SELECT t1.a, t2.c FROM t1 LEFT JOIN t2 ON t1.a = t2.a AND t2.c > $1 WHERE t1.b <= $2", 2),
        ("SELECT t1.a, t2.c FROM t1 INNER JOIN t2 ON t1.a = t2.a + $1", 1),
        ("SELECT CASE WHEN a > $1 THEN b ELSE $2 END AS v FROM t1", 2),
        ("SELECT a FROM t1 WHERE $1 = $2", 2),
        ("SELECT a FROM t1 WHERE a = $1 UNION ALL SELECT a FROM t2 WHERE c = $1", 1),
        ("SELECT DISTINCT a FROM t1 WHERE a >= $1 AND a <= $1", 1),
        ("SELECT a FROM t1 WHERE NOT (a < $1) AND b IS DISTINCT FROM $2", 2),
    ]
}

pub fn run_c41(thorough: bool, seed: u64, threads: usize) -> Value {
    let vals: Vec<Option<i64>> = vec![Some(0), Some(1), Some(-1), Some(2), Some(i32::MAX as i64), Some(i32::MIN as i64), Some(i32::MAX as i64 - 1), None];
    let mut rng = Rng::new(seed ^ 0xC41);
    let mut items: Vec<(String, Vec<Option<i64>>)> = vec![];
    for (tpl, n) in param_templates() {
        let combos = if thorough { 40 } else { 10 };
        for _ in 0..combos {
            let vs: Vec<Option<i64>> = (0..n).map(|_| *rng.pick(&vals)).collect();
            items.push((tpl.to_string(), vs));
        }
    }
    drive(thorough, items, threads, &|w, duo, t, (tpl, vs), nrows| {
        let state = w.ctx.state();
        // literal statement
        let mut lit_sql = tpl.clone();
        for (i, v) in vs.iter().enumerate().rev() {
            let txt = match v {
                Some(x) => format!("{x}"),
                // the literal equivalent of a typed NULL parameter is a typed NULL
                None => "CAST(NULL AS BIGINT)".to_string(),
            };
            lit_sql = lit_sql.replace(&format!("${}", i + 1), &txt);
        }
        let Ok(lit_plan) = w.analyzed(&lit_sql) else {
            t.plan_errors += 1;
            return;
        };
        // placeholder statement bound through LogicalPlan::with_param_values, then analyzed
        let raw = match w.rt.block_on(state.create_logical_plan(tpl)) {
            Ok(p) => p,
            Err(_) => {
                t.plan_errors += 1;
                return;
            }
        };
        let params: Vec<ScalarValue> = vs.iter().map(|v| ScalarValue::Int64(*v)).collect();
        let bound = match raw.with_param_values(ParamValues::from(params.clone())) {
            Ok(p) => p,
            Err(e) => {
                *t.unsupported.entry(format!("with_param_values failed: {}", e.to_string().chars().take(50).collect::<String>())).or_insert(0) += 1;
                return;
            }
        };
        let bound = match state.analyzer().execute_and_check(bound, state.config_options(), |_, _| {}) {
            Ok(p) => p,
            Err(e) => {
                *t.unsupported.entry(format!("analyzer failed on the bound plan: {}", e.to_string().chars().take(50).collect::<String>())).or_insert(0) += 1;
                return;
            }
        };
        let out = plans_equivalent(duo, w, nrows, &lit_plan, &bound, false);
        t.handle("with_param_values", &format!("{tpl} with {vs:?}  vs  {lit_sql}"), &lit_plan, &bound, out, format!("parameters: {tpl}"));
        // PREPARE / EXECUTE through the SessionContext
        let tys = vec!["BIGINT"; vs.len()].join(", ");
        let name = format!("p{}", t.programs);
        let prep = format!("PREPARE {name}({tys}) AS {tpl}");
        let args: Vec<String> = vs.iter().map(|v| v.map(|x| x.to_string()).unwrap_or("NULL".into())).collect();
        let exec = format!("EXECUTE {name}({})", args.join(", "));
        let r = w.rt.block_on(async {
            w.ctx.sql(&prep).await?.collect().await?;
            let df = w.ctx.sql(&exec).await?;
            Ok::<LogicalPlan, datafusion::error::DataFusionError>(df.logical_plan().clone())
        });
        match r {
            Ok(p) => {
                let p = state.analyzer().execute_and_check(p, state.config_options(), |_, _| {});
                if let Ok(p) = p {
                    let out = plans_equivalent(duo, w, nrows, &lit_plan, &p, false);
                    t.handle("prepare-execute", &format!("{prep}; {exec}  vs  {lit_sql}"), &lit_plan, &p, out, format!("prepare/execute: {tpl}"));
                }
            }
            Err(e) => {
                *t.unsupported.entry(format!("PREPARE/EXECUTE failed: {}", e.to_string().chars().take(50).collect::<String>())).or_insert(0) += 1;
            }
        }
    })
}

// ------------------------------------------------------------------------------------------------ C48

type DfBuilder = fn(&World) -> datafusion::error::Result<DataFrame>;

fn tbl(w: &World, n: &str) -> datafusion::error::Result<DataFrame> {
    w.rt.block_on(w.ctx.table(n))
}

fn dataframe_pairs() -> Vec<(&'static str, DfBuilder, &'static str)> {
    use datafusion::functions_aggregate::expr_fn::{count, max, min, sum};
    vec![
        ("filter", |w| tbl(w, "t1")?.filter(col("a").gt(lit(1))), "SELECT a, b FROM t1 WHERE a > 1"),
        ("filter-null", |w| tbl(w, "t1")?.filter(col("a").is_null().or(col("b").lt_eq(lit(0)))), "SELECT a, b FROM t1 WHERE a IS NULL OR b <= 0"),
        ("select", |w| tbl(w, "t1")?.select(vec![col("b"), (col("a") + lit(1i64)).alias("x")]), "SELECT b, a + 1 AS x FROM t1"),
        ("select_columns", |w| tbl(w, "t1")?.select_columns(&["b", "a"]), "SELECT b, a FROM t1"),
        ("with_column", |w| tbl(w, "t1")?.with_column("s", col("a") + col("b")), "SELECT a, b, a + b AS s FROM t1"),
        ("with_column-replace", |w| tbl(w, "t1")?.with_column("a", col("a") + lit(1i64)), "SELECT a + 1 AS a, b FROM t1"),
        ("with_column_renamed", |w| tbl(w, "t1")?.with_column_renamed("a", "z"), "SELECT a AS z, b FROM t1"),
        ("drop_columns", |w| tbl(w, "t1")?.drop_columns(&["a"]), "SELECT b FROM t1"),
        ("distinct", |w| tbl(w, "t1")?.distinct(), "SELECT DISTINCT a, b FROM t1"),
        ("distinct-after-select", |w| tbl(w, "t1")?.select_columns(&["a"])?.distinct(), "SELECT DISTINCT a FROM t1"),
        ("aggregate", |w| tbl(w, "t1")?.aggregate(vec![col("a")], vec![count(col("b")), sum(col("b")), min(col("b")), max(col("b"))]), "SELECT a, count(b), sum(b), min(b), max(b) FROM t1 GROUP BY a"),
        ("aggregate-global", |w| tbl(w, "t1")?.aggregate(vec![], vec![count(lit(1)), sum(col("a"))]), "SELECT count(1), sum(a) FROM t1"),
        ("aggregate-filter", |w| tbl(w, "t1")?.filter(col("b").gt(lit(0)))?.aggregate(vec![col("a")], vec![count(lit(1))]), "SELECT a, count(1) FROM t1 WHERE b > 0 GROUP BY a"),
        ("join-inner", |w| tbl(w, "t1")?.join(tbl(w, "t2")?.select(vec![col("a").alias("a2"), col("c")])?, JoinType::Inner, &["a"], &["a2"], None), "SELECT t1.a, t1.b, t2.a AS a2, t2.c FROM t1 INNER JOIN t2 ON t1.a = t2.a"),
        ("join-left", |w| tbl(w, "t1")?.join(tbl(w, "t2")?.select(vec![col("a").alias("a2"), col("c")])?, JoinType::Left, &["a"], &["a2"], None), "SELECT t1.a, t1.b, t2.a AS a2, t2.c FROM t1 LEFT JOIN t2 ON t1.a = t2.a"),
        ("join-right", |w| tbl(w, "t1")?.join(tbl(w, "t2")?.select(vec![col("a").alias("a2"), col("c")])?, JoinType::Right, &["a"], &["a2"], None), "SELECT t1.a, t1.b, t2.a AS a2, t2.c FROM t1 RIGHT JOIN t2 ON t1.a = t2.a"),
        ("join-full", |w| tbl(w, "t1")?.join(tbl(w, "t2")?.select(vec![col("a").alias("a2"), col("c")])?, JoinType::Full, &["a"], &["a2"], None), "SELECT t1.a, t1.b, t2.a AS a2, t2.c FROM t1 FULL JOIN t2 ON t1.a = t2.a"),
        ("join-semi", |w| tbl(w, "t1")?.join(tbl(w, "t2")?.select(vec![col("a").alias("a2"), col("c")])?, JoinType::LeftSemi, &["a"], &["a2"], None), "SELECT t1.a, t1.b FROM t1 LEFT SEMI JOIN t2 ON t1.a = t2.a"),
        ("join-anti", |w| tbl(w, "t1")?.join(tbl(w, "t2")?.select(vec![col("a").alias("a2"), col("c")])?, JoinType::LeftAnti, &["a"], &["a2"], None), "SELECT t1.a, t1.b FROM t1 LEFT ANTI JOIN t2 ON t1.a = t2.a"),
        ("join-filter", |w| tbl(w, "t1")?.join(tbl(w, "t2")?.select(vec![col("a").alias("a2"), col("c")])?, JoinType::Left, &["a"], &["a2"], Some(col("c").gt(col("b")))), "SELECT t1.a, t1.b, t2.a AS a2, t2.c FROM t1 LEFT JOIN t2 ON t1.a = t2.a AND t2.c > t1.b"),
        ("join_on", |w| tbl(w, "t1")?.join_on(tbl(w, "t3")?.select(vec![col("b").alias("b3"), col("d")])?, JoinType::Inner, vec![col("b").eq(col("b3")), col("d").gt(lit(1))]), "SELECT t1.a, t1.b, t3.b AS b3, t3.d FROM t1 INNER JOIN t3 ON t1.b = t3.b AND t3.d > 1"),
        ("join_on-inequality", |w| tbl(w, "t1")?.join_on(tbl(w, "t3")?.select(vec![col("b").alias("b3"), col("d")])?, JoinType::Left, vec![col("a").lt(col("d"))]), "SELECT t1.a, t1.b, t3.b AS b3, t3.d FROM t1 LEFT JOIN t3 ON t1.a < t3.d"),
        ("union", |w| tbl(w, "t1")?.select_columns(&["a"])?.union(tbl(w, "t2")?.select_columns(&["a"])?), "SELECT a FROM t1 UNION ALL SELECT a FROM t2"),
        ("union_distinct", |w| tbl(w, "t1")?.select_columns(&["a"])?.union_distinct(tbl(w, "t2")?.select_columns(&["a"])?), "SELECT a FROM t1 UNION SELECT a FROM t2"),
        ("union_by_name", |w| tbl(w, "t1")?.select(vec![col("a"), col("b").alias("c")])?.union_by_name(tbl(w, "t2")?.select_columns(&["c", "a"])?), "SELECT a, b AS c FROM t1 UNION ALL SELECT a, c FROM t2"),
        ("intersect", |w| tbl(w, "t1")?.select_columns(&["a"])?.intersect(tbl(w, "t2")?.select_columns(&["a"])?), "SELECT a FROM t1 INTERSECT ALL SELECT a FROM t2"),
        ("intersect_distinct", |w| tbl(w, "t1")?.select_columns(&["a"])?.intersect_distinct(tbl(w, "t2")?.select_columns(&["a"])?), "SELECT a FROM t1 INTERSECT SELECT a FROM t2"),
        ("except", |w| tbl(w, "t1")?.select_columns(&["a"])?.except(tbl(w, "t2")?.select_columns(&["a"])?), "SELECT a FROM t1 EXCEPT ALL SELECT a FROM t2"),
        ("except_distinct", |w| tbl(w, "t1")?.select_columns(&["a"])?.except_distinct(tbl(w, "t2")?.select_columns(&["a"])?), "SELECT a FROM t1 EXCEPT SELECT a FROM t2"),
        ("sort-limit0", |w| tbl(w, "t1")?.sort(vec![col("a").sort(true, true)])?.limit(0, Some(0)), "SELECT a, b FROM t1 ORDER BY a LIMIT 0"),
        ("filter-select-filter", |w| tbl(w, "t1")?.filter(col("a").gt(lit(0)))?.select(vec![(col("a") + col("b")).alias("s"), col("b")])?.filter(col("s").lt(lit(10))), "SELECT s, b FROM (SELECT a + b AS s, b FROM t1 WHERE a > 0) x WHERE s < 10"),
        ("aggregate-having", |w| tbl(w, "t1")?.aggregate(vec![col("a")], vec![sum(col("b")).alias("sb")])?.filter(col("sb").gt(lit(1))), "SELECT a, sum(b) AS sb FROM t1 GROUP BY a HAVING sum(b) > 1"),
    ]
}

pub fn run_c48(thorough: bool, _seed: u64, threads: usize) -> Value {
    let items: Vec<(&'static str, DfBuilder, &'static str)> = dataframe_pairs();
    drive(thorough, items, threads, &|w, duo, t, (name, build, sql), nrows| {
        let state = w.ctx.state();
        let df = match build(w) {
            Ok(d) => d,
            Err(e) => {
                *t.unsupported.entry(format!("DataFrame operation failed: {}", e.to_string().chars().take(60).collect::<String>())).or_insert(0) += 1;
                return;
            }
        };
        let p_df = match state.analyzer().execute_and_check(df.logical_plan().clone(), state.config_options(), |_, _| {}) {
            Ok(p) => p,
            Err(_) => {
                t.plan_errors += 1;
                return;
            }
        };
        let Ok(p_sql) = w.analyzed(sql) else {
            t.plan_errors += 1;
            return;
        };
        let out = plans_equivalent(duo, w, nrows, &p_sql, &p_df, false);
        t.handle(&format!("dataframe/{name}"), &format!("DataFrame {name}  vs  {sql}"), &p_sql, &p_df, out, format!("dataframe: {name}"));
        // and both after the optimizer (the plans a user actually runs)
        if let (Ok(o1), Ok(o2)) = (state.optimize(&p_sql), state.optimize(&p_df)) {
            let out = plans_equivalent(duo, w, nrows, &o1, &o2, false);
            t.handle(&format!("dataframe-optimized/{name}"), &format!("DataFrame {name}  vs  {sql} (optimized)"), &o1, &o2, out, format!("dataframe (optimized): {name}"));
        }
    })
}

// ------------------------------------------------------------------------------------------------ C37

pub fn run_c37(thorough: bool, seed: u64, threads: usize) -> Value {
    let progs = programs(thorough, seed);
    drive(thorough, progs, threads, &|w, duo, t, (fam, sql), nrows| {
        let Ok(analyzed) = w.analyzed(sql) else {
            t.plan_errors += 1;
            return;
        };
        let state = w.ctx.state();
        // Substrait producers are fed optimized plans in practice
        let Ok(plan) = state.optimize(&analyzed) else {
            t.plan_errors += 1;
            return;
        };
        let proto = match std::panic::catch_unwind(std::panic::AssertUnwindSafe(|| datafusion_substrait::logical_plan::producer::to_substrait_plan(&plan, &state))) {
            Ok(Ok(p)) => p,
            _ => {
                *t.unsupported.entry("to_substrait_plan declined the plan".into()).or_insert(0) += 1;
                return;
            }
        };
        let back = match w.rt.block_on(datafusion_substrait::logical_plan::consumer::from_substrait_plan(&state, &proto)) {
            Ok(p) => p,
            Err(e) => {
                *t.unsupported.entry(format!("from_substrait_plan failed: {}", e.to_string().chars().take(50).collect::<String>())).or_insert(0) += 1;
                return;
            }
        };
        let back = match state.analyzer().execute_and_check(back, state.config_options(), |_, _| {}) {
            Ok(p) => p,
            Err(_) => {
                t.plan_errors += 1;
                return;
            }
        };
        let out = plans_equivalent(duo, w, nrows, &plan, &back, false);
        t.handle(&format!("substrait/{fam}"), sql, &plan, &back, out, format!("substrait round trip: {fam}"));
    })
}
