//! Small typed expression IR shared by the logical (`Expr`) and physical (`PhysicalExpr`) front ends.

use std::fmt;

#[derive(Clone, Debug, PartialEq, Eq, Hash)]
pub enum Ty {
    Bool,
    Int { bits: u32, signed: bool },
    Date32,
    Date64,
    /// unit: 0 = s, 1 = ms, 2 = us, 3 = ns (no time zone)
    Ts(u8),
    Dec { p: u8, s: i8 },
    /// DataType::Null (always NULL)
    Null,
}

impl Ty {
    pub fn bits(&self) -> u32 {
        match self {
            Ty::Bool | Ty::Null => 1,
            Ty::Int { bits, .. } => *bits,
            Ty::Date32 => 32,
            Ty::Date64 | Ty::Ts(_) => 64,
            Ty::Dec { .. } => 128,
        }
    }
    pub fn signed(&self) -> bool {
        match self {
            Ty::Int { signed, .. } => *signed,
            Ty::Bool | Ty::Null => false,
            _ => true,
        }
    }
    pub fn is_bv(&self) -> bool {
        !matches!(self, Ty::Bool | Ty::Null)
    }
    pub fn is_int(&self) -> bool {
        matches!(self, Ty::Int { .. })
    }
    pub fn sort(&self) -> String {
        if self.is_bv() {
            format!("(_ BitVec {})", self.bits())
        } else {
            "Bool".to_string()
        }
    }
    pub fn min_max(&self) -> (i128, i128) {
        match self {
            Ty::Dec { p, .. } => {
                let m = 10i128.pow(*p as u32) - 1;
                (-m, m)
            }
            Ty::Bool | Ty::Null => (0, 1),
            _ => {
                let b = self.bits();
                if self.signed() {
                    (-(1i128 << (b - 1)), (1i128 << (b - 1)) - 1)
                } else {
                    (0, ((1u128 << b) - 1) as i128)
                }
            }
        }
    }
}

impl fmt::Display for Ty {
    fn fmt(&self, f: &mut fmt::Formatter<'_>) -> fmt::Result {
        match self {
            Ty::Bool => write!(f, "Boolean"),
            Ty::Int { bits, signed } => write!(f, "{}Int{}", if *signed { "" } else { "U" }, bits),
            Ty::Date32 => write!(f, "Date32"),
            Ty::Date64 => write!(f, "Date64"),
            Ty::Ts(u) => write!(f, "Timestamp({})", ["s", "ms", "us", "ns"][*u as usize]),
            Ty::Dec { p, s } => write!(f, "Decimal128({p},{s})"),
            Ty::Null => write!(f, "Null"),
        }
    }
}

#[derive(Clone, Copy, Debug, PartialEq, Eq, Hash)]
pub enum BinOp {
    Eq,
    NotEq,
    Lt,
    LtEq,
    Gt,
    GtEq,
    Plus,
    Minus,
    Multiply,
    Divide,
    Modulo,
    And,
    Or,
    IsDistinctFrom,
    IsNotDistinctFrom,
    BitAnd,
    BitOr,
    BitXor,
}

impl BinOp {
    pub fn is_cmp(&self) -> bool {
        matches!(
            self,
            BinOp::Eq | BinOp::NotEq | BinOp::Lt | BinOp::LtEq | BinOp::Gt | BinOp::GtEq | BinOp::IsDistinctFrom | BinOp::IsNotDistinctFrom
        )
    }
    pub fn is_logic(&self) -> bool {
        matches!(self, BinOp::And | BinOp::Or)
    }
}

#[derive(Clone, Copy, Debug, PartialEq, Eq, Hash)]
pub enum IsOp {
    Null,
    NotNull,
    True,
    False,
    Unknown,
    NotTrue,
    NotFalse,
    NotUnknown,
}

#[derive(Clone, Debug, PartialEq, Eq, Hash)]
pub enum X {
    Col { name: String, ty: Ty, nullable: bool },
    /// value is the two's complement / unscaled integer; Bool: 0/1; None = NULL of that type
    Lit { ty: Ty, v: Option<i128> },
    Bin { op: BinOp, l: Box<X>, r: Box<X> },
    Not(Box<X>),
    Neg(Box<X>),
    Is(IsOp, Box<X>),
    InList { e: Box<X>, list: Vec<X>, negated: bool },
    Case { operand: Option<Box<X>>, whens: Vec<(X, X)>, els: Option<Box<X>>, ty: Ty },
    Cast { e: Box<X>, to: Ty, try_: bool },
    Func { name: String, args: Vec<X>, ty: Ty },
}

impl X {
    pub fn ty(&self) -> Ty {
        match self {
            X::Col { ty, .. } | X::Lit { ty, .. } => ty.clone(),
            X::Bin { op, l, .. } => {
                if op.is_cmp() || op.is_logic() {
                    Ty::Bool
                } else {
                    l.ty()
                }
            }
            X::Not(_) | X::Is(..) | X::InList { .. } => Ty::Bool,
            X::Neg(e) => e.ty(),
            X::Case { ty, .. } => ty.clone(),
            X::Cast { to, .. } => to.clone(),
            X::Func { ty, .. } => ty.clone(),
        }
    }
    pub fn size(&self) -> usize {
        match self {
            X::Col { .. } | X::Lit { .. } => 1,
            X::Bin { l, r, .. } => 1 + l.size() + r.size(),
            X::Not(e) | X::Neg(e) | X::Is(_, e) | X::Cast { e, .. } => 1 + e.size(),
            X::InList { e, list, .. } => 1 + e.size() + list.iter().map(|x| x.size()).sum::<usize>(),
            X::Case { operand, whens, els, .. } => {
                1 + operand.as_ref().map(|o| o.size()).unwrap_or(0)
                    + whens.iter().map(|(a, b)| a.size() + b.size()).sum::<usize>()
                    + els.as_ref().map(|o| o.size()).unwrap_or(0)
            }
            X::Func { args, .. } => 1 + args.iter().map(|x| x.size()).sum::<usize>(),
        }
    }
    pub fn columns(&self, out: &mut Vec<(String, Ty, bool)>) {
        match self {
            X::Col { name, ty, nullable } => {
                if !out.iter().any(|c| &c.0 == name) {
                    out.push((name.clone(), ty.clone(), *nullable));
                }
            }
            X::Lit { .. } => {}
            X::Bin { l, r, .. } => {
                l.columns(out);
                r.columns(out);
            }
            X::Not(e) | X::Neg(e) | X::Is(_, e) | X::Cast { e, .. } => e.columns(out),
            X::InList { e, list, .. } => {
                e.columns(out);
                for x in list {
                    x.columns(out);
                }
            }
            X::Case { operand, whens, els, .. } => {
                if let Some(o) = operand {
                    o.columns(out);
                }
                for (a, b) in whens {
                    a.columns(out);
                    b.columns(out);
                }
                if let Some(o) = els {
                    o.columns(out);
                }
            }
            X::Func { args, .. } => {
                for x in args {
                    x.columns(out);
                }
            }
        }
    }
}

#[derive(Debug, Clone)]
pub struct Unsupported(pub String);

pub type R<T> = Result<T, Unsupported>;

pub fn unsup<T>(s: impl Into<String>) -> R<T> {
    Err(Unsupported(s.into()))
}
