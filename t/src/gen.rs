//! Program generators: typed expression grammars over a few nullable columns and boundary
//! literals.  Deterministic given the seed.

use crate::ir::*;

pub struct Rng(pub u64);
impl Rng {
    pub fn new(seed: u64) -> Rng {
        Rng(seed.wrapping_mul(0x9E3779B97F4A7C15) ^ 0xD1B54A32D192ED03)
    }
    pub fn next(&mut self) -> u64 {
        // xorshift64*
        let mut x = self.0;
        x ^= x >> 12;
        x ^= x << 25;
        x ^= x >> 27;
        self.0 = x;
        x.wrapping_mul(0x2545F4914F6CDD1D)
    }
    pub fn below(&mut self, n: usize) -> usize {
        (self.next() % (n as u64)) as usize
    }
    pub fn pick<'a, T>(&mut self, v: &'a [T]) -> &'a T {
        &v[self.below(v.len())]
    }
    pub fn chance(&mut self, num: u64, den: u64) -> bool {
        self.next() % den < num
    }
    pub fn shuffle<T>(&mut self, v: &mut Vec<T>) {
        for i in (1..v.len()).rev() {
            let j = self.below(i + 1);
            v.swap(i, j);
        }
    }
}

pub fn col(name: &str, ty: &Ty) -> X {
    X::Col { name: name.into(), ty: ty.clone(), nullable: true }
}
pub fn bin(op: BinOp, l: X, r: X) -> X {
    X::Bin { op, l: Box::new(l), r: Box::new(r) }
}
pub fn lit(ty: &Ty, v: i128) -> X {
    X::Lit { ty: ty.clone(), v: Some(v) }
}
pub fn null(ty: &Ty) -> X {
    X::Lit { ty: ty.clone(), v: None }
}
pub fn not(x: X) -> X {
    X::Not(Box::new(x))
}
pub fn i(bits: u32, signed: bool) -> Ty {
    Ty::Int { bits, signed }
}

pub const CMPS: [BinOp; 6] = [BinOp::Eq, BinOp::NotEq, BinOp::Lt, BinOp::LtEq, BinOp::Gt, BinOp::GtEq];
pub const ARITH: [BinOp; 5] = [BinOp::Plus, BinOp::Minus, BinOp::Multiply, BinOp::Divide, BinOp::Modulo];

/// boundary literal values of an integer-like type (no NULL)
pub fn lit_values(ty: &Ty) -> Vec<i128> {
    let (lo, hi) = ty.min_max();
    let mut v = vec![lo, lo + 1, 0, 1, 2, 3, hi - 1, hi];
    if ty.signed() {
        v.push(-1);
    }
    v.sort();
    v.dedup();
    v
}

pub struct Gen {
    pub rng: Rng,
    pub ity: Ty,
    pub int_cols: Vec<String>,
    pub bool_cols: Vec<String>,
}

impl Gen {
    pub fn new(seed: u64, ity: Ty) -> Gen {
        Gen { rng: Rng::new(seed), ity, int_cols: vec!["a".into(), "b".into()], bool_cols: vec!["p".into(), "q".into()] }
    }

    pub fn int_leaf(&mut self) -> X {
        let ty = self.ity.clone();
        match self.rng.below(10) {
            0..=4 => col(&self.rng.pick(&self.int_cols).clone(), &ty),
            5 => null(&ty),
            _ => {
                let vs = lit_values(&ty);
                lit(&ty, *self.rng.pick(&vs))
            }
        }
    }

    pub fn bool_leaf(&mut self) -> X {
        match self.rng.below(8) {
            0..=4 => col(&self.rng.pick(&self.bool_cols).clone(), &Ty::Bool),
            5 => lit(&Ty::Bool, 1),
            6 => lit(&Ty::Bool, 0),
            _ => null(&Ty::Bool),
        }
    }

    pub fn int_expr(&mut self, depth: u32) -> X {
        if depth == 0 || self.rng.chance(1, 4) {
            return self.int_leaf();
        }
        let ty = self.ity.clone();
        match self.rng.below(12) {
            0..=6 => {
                let op = *self.rng.pick(&ARITH);
                bin(op, self.int_expr(depth - 1), self.int_expr(depth - 1))
            }
            7 if ty.signed() => {
                // `-(x & y)` / `-(x | y)` is the trigger of known finding KF-neg-bitwise (probed in its own
                // family); the random grammar negates anything else
                let inner = self.int_expr(depth - 1);
                if matches!(&inner, X::Bin { op: BinOp::BitAnd | BinOp::BitOr, .. }) {
                    inner
                } else {
                    X::Neg(Box::new(inner))
                }
            }
            8 => X::Case {
                operand: None,
                whens: vec![(self.bool_expr(depth - 1), self.int_expr(depth - 1))],
                els: if self.rng.chance(2, 3) { Some(Box::new(self.int_expr(depth - 1))) } else { None },
                ty,
            },
            9 => X::Func { name: "nullif".into(), args: vec![self.int_expr(depth - 1), self.int_expr(depth - 1)], ty },
            10 => {
                let op = *self.rng.pick(&[BinOp::BitAnd, BinOp::BitOr, BinOp::BitXor]);
                bin(op, self.int_expr(depth - 1), self.int_expr(depth - 1))
            }
            _ => self.int_leaf(),
        }
    }

    pub fn bool_expr(&mut self, depth: u32) -> X {
        if depth == 0 {
            return self.bool_leaf();
        }
        match self.rng.below(20) {
            0..=5 => {
                let op = *self.rng.pick(&CMPS);
                bin(op, self.int_expr(depth - 1), self.int_expr(depth - 1))
            }
            6..=8 => {
                let op = *self.rng.pick(&[BinOp::And, BinOp::Or]);
                bin(op, self.bool_expr(depth - 1), self.bool_expr(depth - 1))
            }
            9 => not(self.bool_expr(depth - 1)),
            10 => {
                let ops = [IsOp::Null, IsOp::NotNull, IsOp::True, IsOp::False, IsOp::Unknown, IsOp::NotTrue, IsOp::NotFalse, IsOp::NotUnknown];
                X::Is(*self.rng.pick(&ops), Box::new(self.bool_expr(depth - 1)))
            }
            11 => X::Is(*self.rng.pick(&[IsOp::Null, IsOp::NotNull]), Box::new(self.int_expr(depth - 1))),
            12 => {
                let n = 1 + self.rng.below(3);
                let list = (0..n).map(|_| self.int_leaf()).collect();
                X::InList { e: Box::new(self.int_expr(depth - 1)), list, negated: self.rng.chance(1, 3) }
            }
            13 => {
                let op = *self.rng.pick(&[BinOp::IsDistinctFrom, BinOp::IsNotDistinctFrom]);
                bin(op, self.int_expr(depth - 1), self.int_expr(depth - 1))
            }
            14 => {
                // BETWEEN, written out as the planner does
                let x = self.int_expr(depth - 1);
                let lo = self.int_leaf();
                let hi = self.int_leaf();
                if self.rng.chance(1, 3) {
                    bin(BinOp::Or, bin(BinOp::Lt, x.clone(), lo), bin(BinOp::Gt, x, hi))
                } else {
                    bin(BinOp::And, bin(BinOp::GtEq, x.clone(), lo), bin(BinOp::LtEq, x, hi))
                }
            }
            15 => X::Case {
                operand: None,
                whens: vec![(self.bool_expr(depth - 1), self.bool_expr(depth - 1))],
                els: if self.rng.chance(2, 3) { Some(Box::new(self.bool_expr(depth - 1))) } else { None },
                ty: Ty::Bool,
            },
            16 => {
                let op = *self.rng.pick(&[BinOp::Eq, BinOp::NotEq, BinOp::IsDistinctFrom, BinOp::IsNotDistinctFrom]);
                bin(op, self.bool_expr(depth - 1), self.bool_expr(depth - 1))
            }
            _ => self.bool_leaf(),
        }
    }
}

/// Systematic family: every comparison atom over {a, b, boundary literals} for type `ty`
pub fn atoms(ty: &Ty) -> Vec<X> {
    let mut out = vec![];
    let a = col("a", ty);
    let b = col("b", ty);
    for op in CMPS.iter().chain([BinOp::IsDistinctFrom, BinOp::IsNotDistinctFrom].iter()) {
        out.push(bin(*op, a.clone(), b.clone()));
        out.push(bin(*op, a.clone(), a.clone()));
        for v in lit_values(ty) {
            out.push(bin(*op, a.clone(), lit(ty, v)));
            out.push(bin(*op, lit(ty, v), a.clone()));
        }
        out.push(bin(*op, a.clone(), null(ty)));
    }
    out.push(X::Is(IsOp::Null, Box::new(a.clone())));
    out.push(X::Is(IsOp::NotNull, Box::new(a.clone())));
    out
}

/// Arithmetic identities the simplifier has rules for, wrapped in a comparison so the result is observable
pub fn arith_identities(ty: &Ty) -> Vec<X> {
    let a = col("a", ty);
    let b = col("b", ty);
    let mut terms = vec![];
    for op in ARITH {
        for v in [0i128, 1, 2] {
            terms.push(bin(op, a.clone(), lit(ty, v)));
            terms.push(bin(op, lit(ty, v), a.clone()));
        }
        if ty.signed() {
            terms.push(bin(op, a.clone(), lit(ty, -1)));
        }
        terms.push(bin(op, a.clone(), a.clone()));
        terms.push(bin(op, a.clone(), null(ty)));
        terms.push(bin(op, null(ty), a.clone()));
        terms.push(bin(op, a.clone(), b.clone()));
        terms.push(bin(op, bin(op, a.clone(), lit(ty, 1)), lit(ty, 2)));
        terms.push(bin(op, lit(ty, ty.min_max().1), lit(ty, 2)));
        terms.push(bin(op, lit(ty, ty.min_max().0), lit(ty, if ty.signed() { -1 } else { 1 })));
    }
    for op in [BinOp::BitAnd, BinOp::BitOr, BinOp::BitXor] {
        terms.push(bin(op, a.clone(), lit(ty, 0)));
        terms.push(bin(op, a.clone(), a.clone()));
        terms.push(bin(op, a.clone(), lit(ty, if ty.signed() { -1 } else { ty.min_max().1 })));
        terms.push(bin(op, a.clone(), null(ty)));
        terms.push(bin(op, bin(op, a.clone(), b.clone()), a.clone()));
    }
    if ty.signed() {
        terms.push(X::Neg(Box::new(X::Neg(Box::new(a.clone())))));
        terms.push(X::Neg(Box::new(lit(ty, ty.min_max().0))));
    }
    let mut out = vec![];
    for t in terms {
        out.push(bin(BinOp::Eq, t.clone(), b.clone()));
        out.push(X::Is(IsOp::Null, Box::new(t.clone())));
        out.push(bin(BinOp::Lt, t, lit(ty, 1)));
    }
    out
}

/// CAST / TRY_CAST of a column of `from` compared with (or IN a list of) literals of `to`
pub fn cast_compare(from: &Ty, to: &Ty) -> Vec<X> {
    let a = col("a", from);
    let (flo, fhi) = from.min_max();
    let (tlo, thi) = to.min_max();
    let mut lits: Vec<i128> = vec![0, 1, 16, tlo, thi, tlo + 1, thi - 1];
    for v in [flo, fhi, flo - 1, fhi + 1, flo + 1, fhi - 1] {
        lits.push(v);
    }
    if to.signed() {
        lits.push(-1);
    }
    // unit / scale conversions: literals on, next to and between the multiples of the conversion factor
    let f: i128 = match (from, to) {
        (Ty::Ts(a), Ty::Ts(b)) if b > a => 1000i128.pow((*b - *a) as u32),
        (Ty::Date32, Ty::Date64) => 86_400_000,
        (Ty::Date32, Ty::Ts(u)) => 86_400 * 1000i128.pow(*u as u32),
        (Ty::Dec { s: s1, .. }, Ty::Dec { s: s2, .. }) if s2 > s1 => 10i128.pow((*s2 - *s1) as u32),
        (Ty::Int { .. }, Ty::Dec { s, .. }) if *s > 0 => 10i128.pow(*s as u32),
        _ => 1,
    };
    if f > 1 {
        lits.extend([f, f + 1, f - 1, f * 3 / 2, -f, -f - 1, 2 * f, 1_500_000_000]);
    }
    if matches!(from, Ty::Dec { .. }) {
        lits.extend([1, 2, 15, 16, -16]);
    }
    lits.sort();
    lits.dedup();
    let lits: Vec<i128> = lits.into_iter().filter(|v| *v >= tlo && *v <= thi).collect();
    let mut out = vec![];
    for try_ in [false, true] {
        let c = X::Cast { e: Box::new(a.clone()), to: to.clone(), try_ };
        for op in CMPS.iter().chain([BinOp::IsDistinctFrom, BinOp::IsNotDistinctFrom].iter()) {
            for v in &lits {
                out.push(bin(*op, c.clone(), lit(to, *v)));
                out.push(bin(*op, lit(to, *v), c.clone()));
            }
            out.push(bin(*op, c.clone(), null(to)));
        }
        for neg in [false, true] {
            out.push(X::InList { e: Box::new(c.clone()), list: lits.iter().take(3).map(|v| lit(to, *v)).collect(), negated: neg });
            out.push(X::InList { e: Box::new(c.clone()), list: lits.iter().rev().take(2).map(|v| lit(to, *v)).chain([null(to)]).collect(), negated: neg });
        }
    }
    out
}

/// IN-list algebra (inlist_simplifier, OR-of-equalities -> IN, intersections / unions), with NULL items
pub fn inlist_patterns(ty: &Ty) -> Vec<X> {
    let a = col("a", ty);
    let b = col("b", ty);
    let l = |v: i128| lit(ty, v);
    let lists: Vec<Vec<X>> = vec![
        vec![l(1), l(2)],
        vec![l(2), l(3)],
        vec![l(3), null(ty)],
        vec![l(1), null(ty)],
        vec![null(ty)],
        vec![l(1)],
        vec![l(1), l(2), l(3)],
        vec![b.clone(), l(1)],
        vec![a.clone(), l(2)],
    ];
    let mut ins = vec![];
    for li in &lists {
        for neg in [false, true] {
            ins.push(X::InList { e: Box::new(a.clone()), list: li.clone(), negated: neg });
        }
    }
    let mut out = ins.clone();
    for x in &ins {
        for y in &ins {
            out.push(bin(BinOp::And, x.clone(), y.clone()));
            out.push(bin(BinOp::Or, x.clone(), y.clone()));
        }
        for v in [1i128, 2, 3] {
            for op in [BinOp::Eq, BinOp::NotEq] {
                out.push(bin(BinOp::And, x.clone(), bin(op, a.clone(), l(v))));
                out.push(bin(BinOp::Or, bin(op, a.clone(), l(v)), x.clone()));
            }
        }
        out.push(not(x.clone()));
    }
    // OR / AND chains of (in)equalities that the simplifier turns into lists
    let eq = |v: X| bin(BinOp::Eq, a.clone(), v);
    let ne = |v: X| bin(BinOp::NotEq, a.clone(), v);
    for third in [l(3), null(ty), b.clone(), l(1)] {
        out.push(bin(BinOp::Or, bin(BinOp::Or, eq(l(1)), eq(l(2))), eq(third.clone())));
        out.push(bin(BinOp::And, bin(BinOp::And, ne(l(1)), ne(l(2))), ne(third.clone())));
        out.push(bin(BinOp::Or, eq(l(1)), bin(BinOp::Eq, third.clone(), a.clone())));
    }
    out
}

/// expressions over column `a` whose simplification depends on a guarantee [lo, hi] for `a`
pub fn guarantee_exprs(ty: &Ty, lo: i128, hi: i128) -> Vec<X> {
    let a = col("a", ty);
    let b = col("b", ty);
    let (tlo, thi) = ty.min_max();
    let mut vs: Vec<i128> = vec![lo - 1, lo, lo + 1, hi - 1, hi, hi + 1, tlo, thi];
    vs.retain(|v| *v >= tlo && *v <= thi);
    vs.sort();
    vs.dedup();
    let mut out = vec![];
    for v in &vs {
        for op in CMPS.iter().chain([BinOp::IsDistinctFrom, BinOp::IsNotDistinctFrom].iter()) {
            out.push(bin(*op, a.clone(), lit(ty, *v)));
            out.push(bin(*op, lit(ty, *v), a.clone()));
        }
    }
    for op in [BinOp::Eq, BinOp::IsDistinctFrom, BinOp::IsNotDistinctFrom, BinOp::Lt] {
        out.push(bin(op, a.clone(), null(ty)));
        out.push(bin(op, a.clone(), b.clone()));
    }
    for isop in [IsOp::Null, IsOp::NotNull] {
        out.push(X::Is(isop, Box::new(a.clone())));
        out.push(X::Is(isop, Box::new(bin(BinOp::Plus, a.clone(), lit(ty, 1)))));
    }
    for neg in [false, true] {
        out.push(X::InList { e: Box::new(a.clone()), list: vec![lit(ty, lo), null(ty)], negated: neg });
        out.push(X::InList { e: Box::new(a.clone()), list: vs.iter().take(3).map(|v| lit(ty, *v)).collect(), negated: neg });
        out.push(X::InList { e: Box::new(a.clone()), list: vec![lit(ty, if hi < thi { hi + 1 } else { hi }), lit(ty, if lo > tlo { lo - 1 } else { lo })], negated: neg });
        out.push(X::InList { e: Box::new(a.clone()), list: vec![lit(ty, hi), lit(ty, if hi < thi { hi + 1 } else { hi }), null(ty)], negated: neg });
        // BETWEEN as the planner writes it
        if neg {
            out.push(bin(BinOp::Or, bin(BinOp::Lt, a.clone(), lit(ty, lo)), bin(BinOp::Gt, a.clone(), lit(ty, hi))));
        } else {
            out.push(bin(BinOp::And, bin(BinOp::GtEq, a.clone(), lit(ty, lo)), bin(BinOp::LtEq, a.clone(), lit(ty, hi))));
        }
    }
    out.push(X::Case { operand: None, whens: vec![(bin(BinOp::Gt, a.clone(), lit(ty, lo)), lit(&Ty::Bool, 1))], els: None, ty: Ty::Bool });
    out.push(bin(BinOp::And, bin(BinOp::Gt, a.clone(), lit(ty, hi)), col("p", &Ty::Bool)));
    out.push(bin(BinOp::Or, bin(BinOp::LtEq, a.clone(), lit(ty, hi)), col("p", &Ty::Bool)));
    out
}

/// Probes for recorded findings: the minimal inputs that exhibit them.
pub fn known_probes(ty: &Ty) -> Vec<X> {
    let a = col("a", ty);
    let b = col("b", ty);
    let mut out = vec![];
    if ty.signed() {
        for op in [BinOp::BitAnd, BinOp::BitOr] {
            let t = X::Neg(Box::new(bin(op, a.clone(), b.clone())));
            out.push(bin(BinOp::Eq, t.clone(), b.clone()));
            out.push(bin(BinOp::Lt, t, lit(ty, 1)));
        }
    }
    out
}

/// boolean algebra patterns over p, q and atoms
pub fn bool_patterns(ty: &Ty) -> Vec<X> {
    let p = col("p", &Ty::Bool);
    let q = col("q", &Ty::Bool);
    let a = col("a", ty);
    let t = lit(&Ty::Bool, 1);
    let f = lit(&Ty::Bool, 0);
    let n = null(&Ty::Bool);
    let gt = |v: i128| bin(BinOp::Gt, a.clone(), lit(ty, v));
    let lt = |v: i128| bin(BinOp::Lt, a.clone(), lit(ty, v));
    let eq = |v: i128| bin(BinOp::Eq, a.clone(), lit(ty, v));
    let ne = |v: i128| bin(BinOp::NotEq, a.clone(), lit(ty, v));
    let mut base: Vec<X> = vec![p.clone(), q.clone(), t.clone(), f.clone(), n.clone(), not(p.clone()), gt(1), lt(3), eq(2), ne(2), gt(3), lt(1), eq(1),
        X::Is(IsOp::Null, Box::new(a.clone())), X::Is(IsOp::NotNull, Box::new(a.clone())),
        X::InList { e: Box::new(a.clone()), list: vec![lit(ty, 1), lit(ty, 2)], negated: false },
        X::InList { e: Box::new(a.clone()), list: vec![lit(ty, 2), lit(ty, 3)], negated: true },
        bin(BinOp::GtEq, a.clone(), lit(ty, ty.min_max().0)), bin(BinOp::LtEq, a.clone(), lit(ty, ty.min_max().1)),
        bin(BinOp::Lt, a.clone(), lit(ty, ty.min_max().0)), bin(BinOp::Gt, a.clone(), lit(ty, ty.min_max().1)),
    ];
    let mut out = vec![];
    for x in &base {
        for y in &base {
            out.push(bin(BinOp::And, x.clone(), y.clone()));
            out.push(bin(BinOp::Or, x.clone(), y.clone()));
        }
        out.push(not(x.clone()));
        out.push(not(not(x.clone())));
        for op in [IsOp::True, IsOp::False, IsOp::Unknown, IsOp::NotTrue, IsOp::NotFalse, IsOp::NotUnknown, IsOp::Null, IsOp::NotNull] {
            out.push(X::Is(op, Box::new(x.clone())));
        }
        for c in [&t, &f, &n] {
            for op in [BinOp::Eq, BinOp::NotEq, BinOp::IsDistinctFrom, BinOp::IsNotDistinctFrom] {
                out.push(bin(op, x.clone(), c.clone()));
                out.push(bin(op, c.clone(), x.clone()));
            }
        }
        out.push(X::Case { operand: None, whens: vec![(x.clone(), t.clone())], els: Some(Box::new(f.clone())), ty: Ty::Bool });
        out.push(X::Case { operand: None, whens: vec![(x.clone(), f.clone())], els: Some(Box::new(t.clone())), ty: Ty::Bool });
        out.push(X::Case { operand: None, whens: vec![(x.clone(), q.clone())], els: None, ty: Ty::Bool });
        out.push(X::Case { operand: None, whens: vec![(x.clone(), t.clone())], els: None, ty: Ty::Bool });
        out.push(X::Case { operand: None, whens: vec![(x.clone(), q.clone())], els: Some(Box::new(q.clone())), ty: Ty::Bool });
        out.push(X::Case { operand: None, whens: vec![(p.clone(), x.clone())], els: Some(Box::new(not(x.clone()))), ty: Ty::Bool });
    }
    base.clear();
    out
}
