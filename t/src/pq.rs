//! Plan-level query: two logical plans over the same (symbolic, bounded) tables return the same
//! multiset of rows.  Shared by C03 (optimizer), C38 (unparser), C41 (parameters), C48 (DataFrame),
//! C37 (Substrait).  `sat` models are turned into concrete MemTables and both plans are executed by
//! the real engine; only a difference observed there is a violation.

use crate::ir::*;
use crate::lx;
use crate::plan::{PlanEnc, TableDef};
use crate::smt::{parse_bv, Duo, Verdict};
use crate::tvq::Outcome;
use datafusion::arrow::array::ArrayRef;
use datafusion::arrow::datatypes::{Field, Schema};
use datafusion::arrow::record_batch::RecordBatch;
use datafusion::arrow::util::pretty::pretty_format_batches;
use datafusion::datasource::MemTable;
use datafusion::logical_expr::LogicalPlan;
use datafusion::prelude::{SessionConfig, SessionContext};
use serde_json::{json, Value};
use std::sync::Arc;

pub struct World {
    pub rt: tokio::runtime::Runtime,
    pub ctx: SessionContext,
    /// replay context WITHOUT logical optimizer rules: `execute_logical_plan` optimizes its input, which would
    /// apply the optimizer under test to the "original" plan as well
    pub raw: SessionContext,
    pub tables: Vec<TableDef>,
    pub mem: Vec<(String, Arc<MemTable>, Arc<Schema>)>,
}

pub fn int32() -> Ty {
    Ty::Int { bits: 32, signed: true }
}

pub fn default_tables() -> Vec<TableDef> {
    vec![
        TableDef { name: "t1".into(), cols: vec![("a".into(), int32(), true), ("b".into(), int32(), true)] },
        TableDef { name: "t2".into(), cols: vec![("a".into(), int32(), true), ("c".into(), int32(), true)] },
        TableDef { name: "t3".into(), cols: vec![("b".into(), int32(), true), ("d".into(), int32(), true)] },
    ]
}

impl World {
    pub fn new(tables: Vec<TableDef>) -> World {
        let rt = tokio::runtime::Builder::new_current_thread().enable_all().build().unwrap();
        let cfg = SessionConfig::new().with_target_partitions(1).with_information_schema(false);
        let ctx = SessionContext::new_with_config(cfg);
        let mut mem = vec![];
        for t in &tables {
            let schema = Arc::new(Schema::new(t.cols.iter().map(|(n, ty, nl)| Field::new(n, lx::ty_to_dt(ty), *nl)).collect::<Vec<_>>()));
            let mt = Arc::new(MemTable::try_new(schema.clone(), vec![vec![]]).unwrap());
            ctx.register_table(t.name.as_str(), mt.clone()).unwrap();
            mem.push((t.name.clone(), mt, schema));
        }
        let raw_state = datafusion::execution::session_state::SessionStateBuilder::new_from_existing(ctx.state()).with_optimizer_rules(vec![]).build();
        let raw = SessionContext::new_with_state(raw_state);
        World { rt, ctx, raw, tables, mem }
    }

    /// development aid: run a SQL text through the NORMAL context (full optimizer) on the given data
    pub fn run_sql_normally(&self, sql: &str, data: &[(String, Vec<Vec<Option<i128>>>)]) -> Result<Vec<String>, String> {
        self.set_data(data);
        let r = self.rt.block_on(async {
            let df = self.ctx.sql(sql).await.map_err(|e| format!("plan: {e}"))?;
            let batches = df.collect().await.map_err(|e| format!("exec: {e}"))?;
            if sql.starts_with("EXPLAIN") {
                return Ok(vec![pretty_format_batches(&batches).map_err(|e| e.to_string())?.to_string()]);
            }
            Ok(batches.iter().map(|b| format!("{} rows", b.num_rows())).collect())
        });
        self.set_data(&[]);
        r
    }

    /// SQL -> (analyzed plan, state)
    pub fn analyzed(&self, sql: &str) -> Result<LogicalPlan, String> {
        let state = self.ctx.state();
        let plan = self.rt.block_on(state.create_logical_plan(sql)).map_err(|e| format!("plan: {e}"))?;
        state.analyzer().execute_and_check(plan, state.config_options(), |_, _| {}).map_err(|e| format!("analyze: {e}"))
    }

    fn set_data(&self, data: &[(String, Vec<Vec<Option<i128>>>)]) {
        for (name, mt, schema) in &self.mem {
            let rows = data.iter().find(|d| &d.0 == name).map(|d| d.1.clone()).unwrap_or_default();
            let def = self.tables.iter().find(|t| &t.name == name).unwrap();
            let batch = if rows.is_empty() {
                RecordBatch::new_empty(schema.clone())
            } else {
                let arrays: Vec<ArrayRef> = def
                    .cols
                    .iter()
                    .enumerate()
                    .map(|(ci, (_, ty, _))| {
                        let vals: Vec<datafusion::common::ScalarValue> = rows.iter().map(|r| lx::lit_to_scalar(ty, r[ci])).collect();
                        datafusion::common::ScalarValue::iter_to_array(vals).unwrap()
                    })
                    .collect();
                RecordBatch::try_new(schema.clone(), arrays).unwrap()
            };
            let part = mt.batches[0].clone();
            self.rt.block_on(async {
                let mut g = part.write().await;
                *g = if batch.num_rows() == 0 { vec![] } else { vec![batch] };
            });
        }
    }

    /// execute a plan on the current table contents; returns the sorted rendered rows
    pub fn run(&self, plan: &LogicalPlan) -> Result<Vec<String>, String> {
        let r = std::panic::catch_unwind(std::panic::AssertUnwindSafe(|| {
            self.rt.block_on(async {
                let df = self.raw.execute_logical_plan(plan.clone()).await.map_err(|e| format!("plan: {e}"))?;
                let batches = df.collect().await.map_err(|e| format!("exec: {e}"))?;
                let mut rows = vec![];
                for b in &batches {
                    for i in 0..b.num_rows() {
                        let one = b.slice(i, 1);
                        let s = pretty_format_batches(&[one]).map_err(|e| e.to_string())?.to_string();
                        // keep the data line only
                        let line = s.lines().nth(3).unwrap_or("").to_string();
                        rows.push(line);
                    }
                }
                rows.sort();
                Ok::<Vec<String>, String>(rows)
            })
        }));
        match r {
            Ok(x) => x,
            Err(_) => Err("panic during execution".into()),
        }
    }
}

fn schema_sig(p: &LogicalPlan) -> Vec<(String, String)> {
    p.schema().fields().iter().map(|f| (f.name().clone(), f.data_type().to_string())).collect()
}

/// Decide `p1 == p2` on all tables with at most `nrows` rows per table.
pub fn plans_equivalent(duo: &mut Duo, w: &World, nrows: usize, p1: &LogicalPlan, p2: &LogicalPlan, check_names: bool) -> Outcome {
    // output schema: same column names and types (concrete side condition of the property)
    let (s1, s2) = (schema_sig(p1), schema_sig(p2));
    let same = if check_names { s1 == s2 } else { s1.iter().map(|x| &x.1).eq(s2.iter().map(|x| &x.1)) };
    if !same {
        return Outcome::Violation(json!({"kind": "output schema changed", "original": format!("{s1:?}"), "rewritten": format!("{s2:?}"), "row": {},
            "original_value": format!("{}", p1.display_indent()), "rewritten_value": format!("{}", p2.display_indent())}));
    }
    let mut pe = PlanEnc::new(&w.tables, nrows);
    let r1 = match pe.plan(p1) {
        Ok(r) => r,
        Err(u) => return Outcome::Unsupported(format!("original: {}", u.0)),
    };
    let em1 = pe.em.clone();
    pe.em = "false".into();
    let r2 = match pe.plan(p2) {
        Ok(r) => r,
        Err(u) => return Outcome::Unsupported(format!("rewritten: {}", u.0)),
    };
    let em2 = pe.em.clone();
    let diff = match pe.differ(&r1, &r2) {
        Ok(d) => d,
        Err(u) => return Outcome::Unsupported(u.0),
    };
    duo.push();
    duo.send(&pe.enc.preamble());
    // both plans can be executed (no expression error on any evaluated row)
    duo.send(&format!("(assert (not {em1}))\n(assert (not {em2}))\n"));
    let out = match duo.check() {
        Verdict::Unsat => Outcome::Trivial("one of the plans errs on every database".into()),
        Verdict::Unknown => Outcome::Inconclusive("solver undecided on the precondition".into()),
        Verdict::Sat => {
            duo.send(&format!("(assert {diff})\n"));
            match duo.check() {
                Verdict::Unsat => Outcome::Equivalent,
                Verdict::Unknown => Outcome::Inconclusive("solver undecided (timeout, error or disagreement)".into()),
                Verdict::Sat => {
                  // A model on which BOTH plans fail in the real engine (an internal error of physical planning, seen with empty
                  // tables) cannot confirm anything: block that database shape (its row-presence flags) and ask for another model.
                  let mut attempt = 0;
                  loop {
                    attempt += 1;
                    // read the database back
                    let mut names = vec![];
                    for (_, rows) in &pe.table_cells {
                        for (p, cells) in rows {
                            names.push(p.clone());
                            for (n, v, _) in cells {
                                names.push(n.clone());
                                names.push(v.clone());
                            }
                        }
                    }
                    let vals = duo.get_values(&names);
                    let get = |k: &str| vals.iter().find(|(n, _)| n == k).map(|(_, v)| v.clone()).unwrap_or_default();
                    let mut data: Vec<(String, Vec<Vec<Option<i128>>>)> = vec![];
                    for (t, rows) in &pe.table_cells {
                        let mut trows = vec![];
                        for (p, cells) in rows {
                            if get(p) != "true" {
                                continue;
                            }
                            let mut row = vec![];
                            for (n, v, ty) in cells {
                                if get(n) == "true" {
                                    row.push(None);
                                } else {
                                    row.push(Some(lx::bits_to_i128(ty, parse_bv(&get(v)).unwrap_or(0))));
                                }
                            }
                            trows.push(row);
                        }
                        data.push((t.clone(), trows));
                    }
                    let out = replay(w, p1, p2, &data);
                    let both_fail = matches!(&out, Outcome::Inconclusive(m) if m.starts_with("both plans fail"));
                    if !both_fail {
                        break out;
                    }
                    if attempt >= 4 {
                        break Outcome::Inconclusive("solver undecided: four counter-models in a row are databases on which both plans fail in the real engine; not claimed".into());
                    }
                    let mut flags = vec![];
                    for (_, rows) in &pe.table_cells {
                        for (p, _) in rows {
                            flags.push(if get(p) == "true" { p.clone() } else { format!("(not {p})") });
                        }
                    }
                    duo.send(&format!("(assert (not (and {})))\n", flags.join(" ")));
                    match duo.check() {
                        Verdict::Sat => {}
                        Verdict::Unsat => break Outcome::Inconclusive("solver undecided: the plans differ only on databases on which both fail in the real engine (outside the property's precondition); not claimed".into()),
                        Verdict::Unknown => break Outcome::Inconclusive("solver undecided (timeout, error or disagreement)".into()),
                    }
                  }
                }
            }
        }
    };
    duo.pop();
    out
}

pub fn data_json(data: &[(String, Vec<Vec<Option<i128>>>)]) -> Value {
    Value::Object(
        data.iter()
            .map(|(t, rows)| {
                (
                    t.clone(),
                    json!({"type": "table", "value": format!("{:?}", rows.iter().map(|r| r.iter().map(|v| v.map(|x| x.to_string()).unwrap_or("NULL".into())).collect::<Vec<_>>()).collect::<Vec<_>>())}),
                )
            })
            .collect(),
    )
}

pub fn replay(w: &World, p1: &LogicalPlan, p2: &LogicalPlan, data: &[(String, Vec<Vec<Option<i128>>>)]) -> Outcome {
    w.set_data(data);
    let r1 = w.run(p1);
    let r2 = w.run(p2);
    w.set_data(&[]);
    let info = json!({"original": format!("{}", p1.display_indent()), "rewritten": format!("{}", p2.display_indent()), "row": data_json(data),
        "original_value": format!("{r1:?}"), "rewritten_value": format!("{r2:?}")});
    match (&r1, &r2) {
        (Ok(a), Ok(b)) if a != b => Outcome::Violation(info),
        (Err(_), Err(_)) => Outcome::Inconclusive(format!("both plans fail at execution on the model database: {info}")),
        (Ok(_), Err(_)) | (Err(_), Ok(_)) => Outcome::Inconclusive(format!("one plan fails at execution on the model database (outside the property's precondition): {info}")),
        _ => Outcome::Inconclusive(format!("solver model did not reproduce in the real engine (encoder and engine disagree): {info}")),
    }
}
