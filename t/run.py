#!/usr/bin/env python3
"""Wrapper for the engine-T checks: (re)builds the driver against /repo's working tree, runs
`tv <property>`, applies the known-findings file, writes evidence and replay files, sets the exit code."""
import json
import os
import subprocess
import sys
import time

sys.path.insert(0, os.path.dirname(os.path.dirname(os.path.abspath(__file__))))
from vlib import common as C

HERE = os.path.dirname(os.path.abspath(__file__))
BIN = os.path.join(C.BUILD, "t-target", "debug", "tv")

META = {
    "C04": dict(
        cmd="c04",
        what="ExprSimplifier::simplify (+canonicalize, +with_guarantees) and PhysicalExprSimplifier::simplify",
        functions=["datafusion_optimizer::simplify_expressions::ExprSimplifier::{coerce,simplify,with_guarantees,with_canonicalize}",
                   "datafusion_physical_expr::simplifier::PhysicalExprSimplifier::simplify",
                   "datafusion_physical_expr::create_physical_expr + PhysicalExpr::evaluate (replay and grid validation)"],
        bounds="expression depth <= 4 (random grammar) over nullable columns a,b (Int8/16/32/64, UInt8/16/32/64 per tier), p,q Boolean and boundary "
               "literals {MIN,MIN+1,-1,0,1,2,3,MAX-1,MAX,NULL}; rows are unbounded: every column value of the full bit width is a solver variable",
        outside=["float, string, regex/LIKE rewrites, udf_preimage (date functions), volatile functions", "decimal arithmetic, decimal->int casts, temporal casts",
                 "expressions deeper than the grammar bound; rewrites that only trigger for literals outside the boundary set"],
        assumptions=["one-row batches define 'evaluates without error' (short-circuit of AND/OR/CASE is row-wise)",
                     "SMT semantics of each operator (enc.rs) is the right generalisation of the values cross-validated on the boundary grid",
                     "z3 5.1.0 and z3 4.8.12 agree on every query (unsat needs both)"],
    ),
    "C03": dict(
        cmd="c03",
        what="SessionState::create_logical_plan + Analyzer, then the real Optimizer: full default pipeline, each rule alone, pipeline minus one rule",
        functions=["datafusion_optimizer::Optimizer::optimize with the default rule list (push_down_filter, push_down_limit, eliminate_outer_join, eliminate_cross_join, "
                   "eliminate_join, common_subexpr_eliminate, optimize_projections, propagate_empty_relation, single_distinct_to_groupby, replace_distinct_aggregate, "
                   "eliminate_group_by_constant, simplify_expressions, extract_equijoin_predicate, filter_null_join_keys, eliminate_filter/limit/duplicated_expr, optimize_unions, ...)",
                   "Optimizer::with_rules(vec![rule]) and with_rules(all minus one)", "SessionContext::execute_logical_plan without logical optimizer rules (replay)"],
        bounds="SQL over t1(a,b), t2(a,c), t3(b,d) (Int32, nullable): filters, projections, subqueries in FROM, DISTINCT, UNION [ALL], GROUP BY with count/sum/min/max (+FILTER, HAVING), "
               "2- and 3-way INNER/LEFT/RIGHT/FULL joins with ON / USING / WHERE predicates on either side, cross joins, constant-false inputs; every database with <= 2 "
               "rows per table: all cell values (32 bit) and NULL flags are solver variables",
        outside=["window functions, unnest, recursive queries, GROUPING SETS, IN/EXISTS/scalar subqueries (not encoded: counted as unsupported)", "LIMIT/OFFSET that depends on row order",
                 "tables with more rows than the bound (a rule wrong only for >= 4 rows per table is missed)", "float/string columns", "row ORDER of sorted outputs (results are compared as multisets)"],
        assumptions=["both plans must be executable (no expression error on any evaluated row) for a difference to count", "relational semantics of each plan node as encoded in t/src/plan.rs (validated by replaying every model in the real engine)",
                     "z3 5.1.0 and z3 4.8.12 agree on every query (unsat needs both)"],
    ),
    "C38": dict(
        cmd="c38",
        what="datafusion_sql::unparser::plan_to_sql (default dialect) on unoptimized and optimized plans, text re-planned with create_logical_plan + Analyzer",
        functions=["datafusion_sql::unparser::plan_to_sql", "sqlparser Statement::to_string", "SessionState::create_logical_plan (re-planning the generated text)"],
        bounds="the C03 SQL corpus, each statement unparsed from its analyzed plan and from its optimized plan; databases with <= 2 / 3 rows per table, cells symbolic",
        outside=["non-default dialects", "plans the unparser declines", "everything outside C03's bound"],
        assumptions=["generated SQL that the engine's own planner rejects counts as a violation (the property requires re-planning to succeed)", "output column NAMES are not compared (types and rows are)",
                     "z3 5.1.0 and z3 4.8.12 agree on every query"],
    ),
    "C41": dict(
        cmd="c41",
        what="LogicalPlan::with_param_values on statements with $n placeholders, and PREPARE / EXECUTE through SessionContext::sql, against the same statement with literals",
        functions=["datafusion_expr::LogicalPlan::with_param_values / replace_params_with_values", "SessionContext::sql (PREPARE, EXECUTE)", "placeholder type inference in datafusion_sql"],
        bounds="13 statement templates with 1-2 positional parameters in filters, projections, BETWEEN, IN lists, HAVING, join conditions, CASE; parameter values from {0,1,-1,2,i32::MIN,i32::MAX,MAX-1,NULL} "
               "as BIGINT; databases with <= 2 / 3 rows per table, cells symbolic",
        outside=["named parameters, LIMIT/OFFSET parameters, parameters inside subqueries", "non-integer parameter types"],
        assumptions=["the literal equivalent of a typed NULL parameter is CAST(NULL AS BIGINT)", "z3 5.1.0 and z3 4.8.12 agree on every query"],
    ),
    "C48": dict(
        cmd="c48",
        what="DataFrame builder methods (filter, select, select_columns, with_column, with_column_renamed, drop_columns, distinct, aggregate, join, join_on, union, union_distinct, union_by_name, "
             "intersect[_distinct], except[_distinct], sort, limit) against the SQL statement with the same meaning, before and after the optimizer",
        functions=["datafusion::dataframe::DataFrame::{filter,select,select_columns,with_column,with_column_renamed,drop_columns,distinct,aggregate,join,join_on,union,union_distinct,union_by_name,intersect,intersect_distinct,except,except_distinct,sort,limit}",
                   "SessionState::create_logical_plan (SQL side)", "Optimizer (optimized variants)"],
        bounds="32 operation chains (length 1-3) each paired with its SQL rendering; databases with <= 2 / 3 rows per table, cells symbolic",
        outside=["unnest, window columns, distinct_on, chains longer than 3", "row order of sorted results", "everything outside C03's bound"],
        assumptions=["the hand-written SQL rendering of each chain is the intended meaning (integer literals are written as BIGINT on the DataFrame side, as SQL does)", "z3 5.1.0 and z3 4.8.12 agree on every query"],
    ),
    "C37": dict(
        cmd="c37",
        what="datafusion_substrait::logical_plan::producer::to_substrait_plan followed by consumer::from_substrait_plan on optimized plans",
        functions=["datafusion_substrait::logical_plan::producer::to_substrait_plan", "datafusion_substrait::logical_plan::consumer::from_substrait_plan"],
        bounds="the C03 SQL corpus (optimized plans); databases with <= 2 / 3 rows per table, cells symbolic",
        outside=["physical Substrait plans", "plans the producer declines", "row order", "everything outside C03's bound"],
        assumptions=["z3 5.1.0 and z3 4.8.12 agree on every query"],
    ),
    "C22": dict(
        cmd="c22",
        what="PruningPredicateBuilder::try_build (predicate -> min/max/null_count/row_count predicate) and LiteralGuarantee::analyze",
        functions=["datafusion_pruning::PruningPredicateBuilder::try_build / PruningPredicate::{predicate_expr,prune}",
                   "datafusion_physical_expr::utils::LiteralGuarantee::analyze",
                   "ExprSimplifier::{coerce,simplify}, create_physical_expr (to obtain the physical predicate)",
                   "PruningPredicate::prune on a one-container PruningStatistics + PhysicalExpr::evaluate (replay)"],
        bounds="predicates: comparison / IN / IS NULL atoms over nullable columns a,b (Int32, UInt8; thorough adds Int64, UInt64, Int8) and booleans p,q, their negations, "
               "AND/OR pairs, casts and `a+1`, `a-b` arithmetic, random boolean expressions of depth <= 3; the container is fully symbolic: min, max, null_count, row_count are "
               "independent solver variables each of which may be unknown (NULL); the witness row is symbolic",
        outside=["LIKE-prefix pruning / increment_utf8 (strings)", "bloom-filter membership (`contained()` returns None in the model and in the replay)",
                 "file_pruner.rs partition-value plumbing", "containers are modelled by one witness row + statistics, not by explicit multi-row contents"],
        assumptions=["statistics validity: min <= every non-NULL value <= max, null_count <= row_count, null_count < row_count if a non-NULL value exists, null_count >= 1 if a NULL exists, row_count >= 1",
                     "prune() keeps a container unless the statistics predicate evaluates to FALSE (NULL and errors keep it)",
                     "z3 5.1.0 and z3 4.8.12 agree on every query (unsat needs both)"],
    ),
    "C23": dict(
        cmd="c23",
        what="Interval::{add,sub,mul,div,gt,gt_eq,lt,lt_eq,equal,intersect,union,contains,cast_to}, satisfy_greater, propagate_arithmetic, propagate_comparison, ExprIntervalGraph::{evaluate_bounds,update_ranges}",
        functions=["datafusion_expr_common::interval_arithmetic::Interval::{add,sub,mul,div,gt,gt_eq,lt,lt_eq,equal,intersect,union,contains,cast_to}",
                   "datafusion_expr_common::interval_arithmetic::satisfy_greater",
                   "datafusion_physical_expr::intervals::cp_solver::{propagate_arithmetic,propagate_comparison}",
                   "datafusion_physical_expr::intervals::cp_solver::ExprIntervalGraph::{try_new,gather_node_indices,update_ranges,evaluate_bounds}"],
        bounds="interval ENDPOINTS are enumerated from the type boundaries {MIN,MIN+1,-7,-2,-1,0,1,2,3,7,MAX-1,MAX,unbounded} of Int8/Int32/Int64/UInt8/UInt64 (seeded slice per tier); "
               "the VALUES inside the intervals are unbounded solver variables (mathematical integers, exact arithmetic); propagation graphs have the shape `a (+|-) b <cmp> k`",
        outside=["float endpoints and directed rounding (FFI fesetround), statistics.rs distributions, temporal / interval-typed endpoints", "NullableInterval (covered through C04 guarantees)",
                 "expression graphs deeper than one arithmetic node under one comparison", "endpoints that are not boundary values"],
        assumptions=["a result is only required to be covered when it is representable in the operand type (the property's own precondition)",
                     "unbounded endpoint = the type's extreme value (unsigned lower bound 0), as Interval::new standardises it",
                     "z3 5.1.0 and z3 4.8.12 agree on every query (unsat needs both)"],
    ),
    "C44": dict(
        cmd="c44",
        what="DefaultPhysicalExprAdapter::rewrite (datafusion-physical-expr-adapter) on predicates and bare column references over the table schema, for file schemas with reordered, missing, extra and re-typed columns",
        functions=["datafusion_physical_expr_adapter::DefaultPhysicalExprAdapter::rewrite (rewrite_column, resolve_physical_column, validate_data_type_compatibility)",
                   "create_physical_expr + PhysicalExpr::evaluate, arrow cast kernel (replay and grid validation)"],
        bounds="table schema a,b,c : T, p : Boolean with T in {Int32, Int64, UInt8} (thorough adds Int16, UInt32, Int8, UInt64); 9 file-schema variants per T (reordered, missing, extra, narrower/wider/sign-flipped/UInt8 column types and combinations); "
               "per variant: bare columns, every comparison atom over boundary literals, 12 hand-written predicates, 50 (thorough 160) generated predicates of depth <= 3; every file cell (value of the full width and NULL flag) is a solver variable",
        outside=["nested struct fields added/removed (get_field narrowing, nested_struct.rs)", "schema_adapter.rs / BatchAdapter plumbing and the Parquet reader's own coercions (schema_coercion.rs)",
                 "string, float, decimal and temporal columns", "non-nullable missing columns (the adapter returns an error by design)"],
        assumptions=["specification = the same expression with each table column replaced by CAST(file column AS table type) (non-safe cast: overflow is an error, excluded by the property's precondition) or NULL when missing",
                     "one-row batches; SMT semantics of casts and comparisons cross-validated on the boundary grid",
                     "z3 5.1.0 and z3 4.8.12 agree on every query (unsat needs both)"],
    ),
    "C47": dict(
        cmd="c47",
        what="TypeCoercion analyzer rewrite (ExprSimplifier::coerce = TypeCoercionRewriter) on x <op> y for every ordered pair of types, followed by ExprSimplifier::simplify for literal operands",
        functions=["datafusion_optimizer::analyzer::type_coercion::TypeCoercionRewriter (through ExprSimplifier::coerce)",
                   "datafusion_expr_common::type_coercion::binary::comparison_coercion (reached from the rewriter)",
                   "datafusion_optimizer::simplify_expressions::ExprSimplifier::simplify (unwrap_cast on coerced literal comparisons)",
                   "create_physical_expr + PhysicalExpr::evaluate (replay and grid validation)"],
        bounds="ordered pairs over {Int8,Int32,Int64,UInt8,UInt32,UInt64,Decimal128(10,2),(5,0),(20,0),Date32,Date64,Timestamp(s),Timestamp(ns)} (thorough adds Int16, UInt16, "
               "Decimal128(18,6),(38,10), Timestamp(ms),(us)) x 8 comparison operators; operand values are unbounded solver variables of the full bit width; literal operands from the type boundaries",
        outside=["float operands (2^53 neighbourhood), strings, dictionaries", "equi-joins on mixed-type keys (plan level)", "Date64 <-> Timestamp and Timestamp -> Date casts (not encoded: counted as unsupported)"],
        assumptions=["'mathematically correct' = comparison of the exact integer / scaled-decimal values; for temporal types only the mirror law is checked",
                     "one-row batches; SMT semantics of casts and comparisons cross-validated on the boundary grid",
                     "z3 5.1.0 and z3 4.8.12 agree on every query (unsat needs both)"],
    ),
}


def build():
    env = dict(os.environ)
    env["CARGO_NET_OFFLINE"] = "true"
    lock = os.path.join(HERE, "Cargo.lock")
    if not os.path.exists(lock):
        subprocess.run(["cp", os.path.join(C.REPO, "Cargo.lock"), lock])
    t0 = time.time()
    p = subprocess.run(["cargo", "build", "--offline"], cwd=HERE, env=env, capture_output=True, text=True)
    if p.returncode != 0:
        # a stale lock file (repo dependencies changed): refresh once
        subprocess.run(["cp", os.path.join(C.REPO, "Cargo.lock"), lock])
        p = subprocess.run(["cargo", "build", "--offline"], cwd=HERE, env=env, capture_output=True, text=True)
    return p.returncode == 0, p.stderr[-3000:], time.time() - t0


def main():
    pid = sys.argv[1]
    meta = META[pid]
    t0 = time.time()
    tier = C.tier()
    ok, err, build_s = build()
    if not ok:
        C.write_evidence(pid, "translation_validation", {"programs": 0, "disagreements_checked": 0, "samples": [],
                                                          "explanation": "driver does not build against /repo: " + err[-800:],
                                                          "evaluations": 0, "distinct_nontrivial": 0}, [], time.time() - t0, 0)
        C.finish(pid, [], [], ["engine-T driver does not build against the current /repo tree:\n" + err[-1500:]])
    env = dict(os.environ)
    env["VERIF_TIER"] = tier
    env.setdefault("VERIF_THREADS", "12")
    p = subprocess.run([BIN, meta["cmd"]], env=env, capture_output=True, text=True)
    if p.returncode != 0 or not p.stdout.strip().startswith("{"):
        C.write_evidence(pid, "translation_validation", {"programs": 0, "disagreements_checked": 0, "samples": [],
                                                          "explanation": "driver crashed: " + p.stderr[-800:], "evaluations": 0, "distinct_nontrivial": 0},
                         [], time.time() - t0, 0)
        C.finish(pid, [], [], ["driver crashed: " + p.stderr[-1500:]])
    r = json.loads(p.stdout)
    inconclusive = []
    grid = r.get("grid", {})
    if grid.get("mismatches"):
        inconclusive.append("encoder/evaluator grid validation failed on %d points, e.g. %s" % (len(grid["mismatches"]), grid["mismatches"][0][:300]))
    if grid.get("unsupported"):
        inconclusive.append("grid template not encodable: %s" % grid["unsupported"][0][:200])
    sol = r.get("solver", {})
    if sol.get("errors") or sol.get("disagreements"):
        inconclusive.append("solver errors=%s disagreements=%s" % (sol.get("errors"), sol.get("disagreements")))
    # Programs on which the solvers ran out of time are NOT claimed (they are listed in the evidence as
    # undecided and do not count as proved); they make the run inconclusive only when they are more than
    # 2 % of the programs.  Everything else (a model that does not reproduce, solver disagreement, a panic
    # in the rewriter) is always inconclusive: it means the encoder or a solver cannot be trusted.
    undecided = [i for i in r.get("inconclusive", []) if "solver undecided" in i]
    for i in r.get("inconclusive", []):
        if "solver undecided" not in i:
            inconclusive.append(i[:600])
    # quick: 2 % of the programs; thorough (3 rows per table, much larger formulas): 5 %
    if len(undecided) > max(2, (0.05 if tier == "thorough" else 0.02) * max(1, r.get("programs", 0))):
        inconclusive.append("%d programs undecided by the solvers within the time limit, e.g. %s" % (len(undecided), undecided[0][:300]))
    # violations vs known findings
    unlisted, known_hits = [], {}
    os.makedirs(os.path.join(C.BUILD, "replay"), exist_ok=True)
    by_sig = {}
    for v in r.get("violations", []):
        by_sig.setdefault(v.get("signature", "?"), []).append(v)
    for sig, vs in sorted(by_sig.items()):
        kf = C.match_known(pid, sig)
        if kf:
            known_hits[sig] = "%s [%d programs, e.g. %s => %s on row %s]" % (
                kf.get("what", sig), len(vs), vs[0].get("original"), vs[0].get("rewritten"),
                json.dumps({k: x.get("value") for k, x in vs[0].get("row", {}).items()}))
        else:
            rp = os.path.join(C.BUILD, "replay", "%s_%d.json" % (pid, len(unlisted)))
            with open(rp, "w") as f:
                json.dump({"property": pid, "signature": sig, "count": len(vs), "cases": vs[:20],
                           "how_to_replay": "evaluate `original` and `rewritten` with create_physical_expr(..).evaluate on the one-row batch `row`"}, f, indent=1)
            unlisted.append((sig, rp))
            print("counterexample: %s => %s ; row %s ; original = %s, rewritten = %s" % (
                vs[0].get("original"), vs[0].get("rewritten"), json.dumps({k: x.get("value") for k, x in vs[0].get("row", {}).items()}),
                vs[0].get("original_value"), vs[0].get("rewritten_value")))
    nsat = len(r.get("violations", [])) + sum(1 for i in r.get("inconclusive", []) if "did not reproduce" in i)
    cov = {
        "programs": r.get("programs", 0) + r.get("physical", {}).get("programs", 0),
        "disagreements_checked": nsat,
        "samples": r.get("samples", [])[:12] or [{"note": "no sample recorded"}],
        "rewritten_programs": r.get("changed", 0) + r.get("physical", {}).get("changed", 0),
        "proved_equivalent": r.get("equivalent", 0) + r.get("physical", {}).get("equivalent", 0),
        "distinct_nontrivial": r.get("distinct_rewrites", 0),
        "evaluations": r.get("programs", 0),
        "rule": "a program is non-trivial when the real rewriter changed it and the solver showed the precondition (original evaluates without error) satisfiable; distinct = distinct (original => rewritten) pairs proved equivalent",
        "undecided_solver_timeout_not_claimed": len(undecided),
        "undecided_examples": [u[:300] for u in undecided[:3]],
        "unchanged_by_rewriter": r.get("unchanged", 0),
        "trivial_original_always_errs": r.get("trivial", 0),
        "unsupported_by_encoder": sum(r.get("unsupported", {}).values()),
        "unsupported_reasons": dict(list(sorted(r.get("unsupported", {}).items(), key=lambda kv: -kv[1]))[:15]),
        "rewriter_returned_error": len(r.get("simplifier_errors", [])),
        "rewriter_error_samples": r.get("simplifier_errors", [])[:3],
        "violations_replayed_in_real_evaluator": len(r.get("violations", [])),
        "violation_signatures": {s: len(v) for s, v in by_sig.items()},
        "families": r.get("families", {}),
        "physical_simplifier": r.get("physical", {}),
        "encoder_grid_validation": {"templates": grid.get("templates"), "points": grid.get("points"), "mismatches": len(grid.get("mismatches", []))},
        "queries": sol.get("queries"),
        "solver_time_s": round(sol.get("secs", 0), 1),
        "solvers": sol.get("solvers"),
        "functions_encoded": meta["functions"],
        "bounds": meta["bounds"],
        "outside": meta["outside"],
        "real_code_run": meta["what"],
        "driver_build_s": round(build_s, 1),
    }
    C.write_evidence(pid, "translation_validation", cov, meta["assumptions"], time.time() - t0, len(unlisted))
    C.finish(pid, unlisted, list(known_hits.values()), inconclusive)


if __name__ == "__main__":
    main()
