#!/usr/bin/env python3
"""Wrapper for the engine-T checks: (re)builds the driver against /repo's working tree, runs
`tv <property>`, applies the known-findings file, writes evidence and replay files, sets the exit code."""
import json
import os
import subprocess
import sys
import time

sys.path.insert(0, os.path.dirname(os.path.dirname(os.path.abspath(__file__))))
from vlib import common as C

HERE = os.path.dirname(os.path.abspath(__file__))
BIN = os.path.join(C.BUILD, "t-target", "debug", "tv")

META = {
    "C04": dict(
        cmd="c04",
        what="ExprSimplifier::simplify (+canonicalize, +with_guarantees) and PhysicalExprSimplifier::simplify",
        functions=["datafusion_optimizer::simplify_expressions::ExprSimplifier::{coerce,simplify,with_guarantees,with_canonicalize}",
                   "datafusion_physical_expr::simplifier::PhysicalExprSimplifier::simplify",
                   "datafusion_physical_expr::create_physical_expr + PhysicalExpr::evaluate (replay and grid validation)"],
        bounds="expression depth <= 4 (random grammar) over nullable columns a,b (Int8/16/32/64, UInt8/16/32/64 per tier), p,q Boolean and boundary "
               "literals {MIN,MIN+1,-1,0,1,2,3,MAX-1,MAX,NULL}; rows are unbounded: every column value of the full bit width is a solver variable",
        outside=["float, string, regex/LIKE rewrites, udf_preimage (date functions), volatile functions", "decimal arithmetic, decimal->int casts, temporal casts",
                 "expressions deeper than the grammar bound; rewrites that only trigger for literals outside the boundary set"],
        assumptions=["one-row batches define 'evaluates without error' (short-circuit of AND/OR/CASE is row-wise)",
                     "SMT semantics of each operator (enc.rs) is the right generalisation of the values cross-validated on the boundary grid",
                     "z3 5.1.0 and z3 4.8.12 agree on every query (unsat needs both)"],
    ),
    "C22": dict(
        cmd="c22",
        what="PruningPredicateBuilder::try_build (predicate -> min/max/null_count/row_count predicate) and LiteralGuarantee::analyze",
        functions=["datafusion_pruning::PruningPredicateBuilder::try_build / PruningPredicate::{predicate_expr,prune}",
                   "datafusion_physical_expr::utils::LiteralGuarantee::analyze",
                   "ExprSimplifier::{coerce,simplify}, create_physical_expr (to obtain the physical predicate)",
                   "PruningPredicate::prune on a one-container PruningStatistics + PhysicalExpr::evaluate (replay)"],
        bounds="predicates: comparison / IN / IS NULL atoms over nullable columns a,b (Int32, UInt8; thorough adds Int64, UInt64, Int8) and booleans p,q, their negations, "
               "AND/OR pairs, casts and `a+1`, `a-b` arithmetic, random boolean expressions of depth <= 3; the container is fully symbolic: min, max, null_count, row_count are "
               "independent solver variables each of which may be unknown (NULL); the witness row is symbolic",
        outside=["LIKE-prefix pruning / increment_utf8 (strings)", "bloom-filter membership (`contained()` returns None in the model and in the replay)",
                 "file_pruner.rs partition-value plumbing", "containers are modelled by one witness row + statistics, not by explicit multi-row contents"],
        assumptions=["statistics validity: min <= every non-NULL value <= max, null_count <= row_count, null_count < row_count if a non-NULL value exists, null_count >= 1 if a NULL exists, row_count >= 1",
                     "prune() keeps a container unless the statistics predicate evaluates to FALSE (NULL and errors keep it)",
                     "z3 5.1.0 and z3 4.8.12 agree on every query (unsat needs both)"],
    ),
    "C23": dict(
        cmd="c23",
        what="Interval::{add,sub,mul,div,gt,gt_eq,lt,lt_eq,equal,intersect,union,contains,cast_to}, satisfy_greater, propagate_arithmetic, propagate_comparison, ExprIntervalGraph::{evaluate_bounds,update_ranges}",
        functions=["datafusion_expr_common::interval_arithmetic::Interval::{add,sub,mul,div,gt,gt_eq,lt,lt_eq,equal,intersect,union,contains,cast_to}",
                   "datafusion_expr_common::interval_arithmetic::satisfy_greater",
                   "datafusion_physical_expr::intervals::cp_solver::{propagate_arithmetic,propagate_comparison}",
                   "datafusion_physical_expr::intervals::cp_solver::ExprIntervalGraph::{try_new,gather_node_indices,update_ranges,evaluate_bounds}"],
        bounds="interval ENDPOINTS are enumerated from the type boundaries {MIN,MIN+1,-7,-2,-1,0,1,2,3,7,MAX-1,MAX,unbounded} of Int8/Int32/Int64/UInt8/UInt64 (seeded slice per tier); "
               "the VALUES inside the intervals are unbounded solver variables (mathematical integers, exact arithmetic); propagation graphs have the shape `a (+|-) b <cmp> k`",
        outside=["float endpoints and directed rounding (FFI fesetround), statistics.rs distributions, temporal / interval-typed endpoints", "NullableInterval (covered through C04 guarantees)",
                 "expression graphs deeper than one arithmetic node under one comparison", "endpoints that are not boundary values"],
        assumptions=["a result is only required to be covered when it is representable in the operand type (the property's own precondition)",
                     "unbounded endpoint = the type's extreme value (unsigned lower bound 0), as Interval::new standardises it",
                     "z3 5.1.0 and z3 4.8.12 agree on every query (unsat needs both)"],
    ),
    "C47": dict(
        cmd="c47",
        what="TypeCoercion analyzer rewrite (ExprSimplifier::coerce = TypeCoercionRewriter) on x <op> y for every ordered pair of types, followed by ExprSimplifier::simplify for literal operands",
        functions=["datafusion_optimizer::analyzer::type_coercion::TypeCoercionRewriter (through ExprSimplifier::coerce)",
                   "datafusion_expr_common::type_coercion::binary::comparison_coercion (reached from the rewriter)",
                   "datafusion_optimizer::simplify_expressions::ExprSimplifier::simplify (unwrap_cast on coerced literal comparisons)",
                   "create_physical_expr + PhysicalExpr::evaluate (replay and grid validation)"],
        bounds="ordered pairs over {Int8,Int32,Int64,UInt8,UInt32,UInt64,Decimal128(10,2),(5,0),(20,0),Date32,Date64,Timestamp(s),Timestamp(ns)} (thorough adds Int16, UInt16, "
               "Decimal128(18,6),(38,10), Timestamp(ms),(us)) x 8 comparison operators; operand values are unbounded solver variables of the full bit width; literal operands from the type boundaries",
        outside=["float operands (2^53 neighbourhood), strings, dictionaries", "equi-joins on mixed-type keys (plan level)", "Date64 <-> Timestamp and Timestamp -> Date casts (not encoded: counted as unsupported)"],
        assumptions=["'mathematically correct' = comparison of the exact integer / scaled-decimal values; for temporal types only the mirror law is checked",
                     "one-row batches; SMT semantics of casts and comparisons cross-validated on the boundary grid",
                     "z3 5.1.0 and z3 4.8.12 agree on every query (unsat needs both)"],
    ),
}


def build():
    env = dict(os.environ)
    env["CARGO_NET_OFFLINE"] = "true"
    lock = os.path.join(HERE, "Cargo.lock")
    if not os.path.exists(lock):
        subprocess.run(["cp", os.path.join(C.REPO, "Cargo.lock"), lock])
    t0 = time.time()
    p = subprocess.run(["cargo", "build", "--offline"], cwd=HERE, env=env, capture_output=True, text=True)
    if p.returncode != 0:
        # a stale lock file (repo dependencies changed): refresh once
        subprocess.run(["cp", os.path.join(C.REPO, "Cargo.lock"), lock])
        p = subprocess.run(["cargo", "build", "--offline"], cwd=HERE, env=env, capture_output=True, text=True)
    return p.returncode == 0, p.stderr[-3000:], time.time() - t0


def main():
    pid = sys.argv[1]
    meta = META[pid]
    t0 = time.time()
    tier = C.tier()
    ok, err, build_s = build()
    if not ok:
        C.write_evidence(pid, "translation_validation", {"programs": 0, "disagreements_checked": 0, "samples": [],
                                                          "explanation": "driver does not build against /repo: " + err[-800:],
                                                          "evaluations": 0, "distinct_nontrivial": 0}, [], time.time() - t0, 0)
        C.finish(pid, [], [], ["engine-T driver does not build against the current /repo tree:\n" + err[-1500:]])
    env = dict(os.environ)
    env["VERIF_TIER"] = tier
    env.setdefault("VERIF_THREADS", "12")
    p = subprocess.run([BIN, meta["cmd"]], env=env, capture_output=True, text=True)
    if p.returncode != 0 or not p.stdout.strip().startswith("{"):
        C.write_evidence(pid, "translation_validation", {"programs": 0, "disagreements_checked": 0, "samples": [],
                                                          "explanation": "driver crashed: " + p.stderr[-800:], "evaluations": 0, "distinct_nontrivial": 0},
                         [], time.time() - t0, 0)
        C.finish(pid, [], [], ["driver crashed: " + p.stderr[-1500:]])
    r = json.loads(p.stdout)
    inconclusive = []
    grid = r.get("grid", {})
    if grid.get("mismatches"):
        inconclusive.append("encoder/evaluator grid validation failed on %d points, e.g. %s" % (len(grid["mismatches"]), grid["mismatches"][0][:300]))
    if grid.get("unsupported"):
        inconclusive.append("grid template not encodable: %s" % grid["unsupported"][0][:200])
    sol = r.get("solver", {})
    if sol.get("errors") or sol.get("disagreements"):
        inconclusive.append("solver errors=%s disagreements=%s" % (sol.get("errors"), sol.get("disagreements")))
    for i in r.get("inconclusive", []):
        inconclusive.append(i[:600])
    # violations vs known findings
    unlisted, known_hits = [], {}
    os.makedirs(os.path.join(C.BUILD, "replay"), exist_ok=True)
    by_sig = {}
    for v in r.get("violations", []):
        by_sig.setdefault(v.get("signature", "?"), []).append(v)
    for sig, vs in sorted(by_sig.items()):
        kf = C.match_known(pid, sig)
        if kf:
            known_hits[sig] = "%s [%d programs, e.g. %s => %s on row %s]" % (
                kf.get("what", sig), len(vs), vs[0].get("original"), vs[0].get("rewritten"),
                json.dumps({k: x.get("value") for k, x in vs[0].get("row", {}).items()}))
        else:
            rp = os.path.join(C.BUILD, "replay", "%s_%d.json" % (pid, len(unlisted)))
            with open(rp, "w") as f:
                json.dump({"property": pid, "signature": sig, "count": len(vs), "cases": vs[:20],
                           "how_to_replay": "evaluate `original` and `rewritten` with create_physical_expr(..).evaluate on the one-row batch `row`"}, f, indent=1)
            unlisted.append((sig, rp))
            print("counterexample: %s => %s ; row %s ; original = %s, rewritten = %s" % (
                vs[0].get("original"), vs[0].get("rewritten"), json.dumps({k: x.get("value") for k, x in vs[0].get("row", {}).items()}),
                vs[0].get("original_value"), vs[0].get("rewritten_value")))
    nsat = len(r.get("violations", [])) + sum(1 for i in r.get("inconclusive", []) if "did not reproduce" in i)
    cov = {
        "programs": r.get("programs", 0) + r.get("physical", {}).get("programs", 0),
        "disagreements_checked": nsat,
        "samples": r.get("samples", [])[:12] or [{"note": "no sample recorded"}],
        "rewritten_programs": r.get("changed", 0) + r.get("physical", {}).get("changed", 0),
        "proved_equivalent": r.get("equivalent", 0) + r.get("physical", {}).get("equivalent", 0),
        "distinct_nontrivial": r.get("distinct_rewrites", 0),
        "evaluations": r.get("programs", 0),
        "rule": "a program is non-trivial when the real rewriter changed it and the solver showed the precondition (original evaluates without error) satisfiable; distinct = distinct (original => rewritten) pairs proved equivalent",
        "unchanged_by_rewriter": r.get("unchanged", 0),
        "trivial_original_always_errs": r.get("trivial", 0),
        "unsupported_by_encoder": sum(r.get("unsupported", {}).values()),
        "unsupported_reasons": dict(list(sorted(r.get("unsupported", {}).items(), key=lambda kv: -kv[1]))[:15]),
        "rewriter_returned_error": len(r.get("simplifier_errors", [])),
        "rewriter_error_samples": r.get("simplifier_errors", [])[:3],
        "violations_replayed_in_real_evaluator": len(r.get("violations", [])),
        "violation_signatures": {s: len(v) for s, v in by_sig.items()},
        "families": r.get("families", {}),
        "physical_simplifier": r.get("physical", {}),
        "encoder_grid_validation": {"templates": grid.get("templates"), "points": grid.get("points"), "mismatches": len(grid.get("mismatches", []))},
        "queries": sol.get("queries"),
        "solver_time_s": round(sol.get("secs", 0), 1),
        "solvers": sol.get("solvers"),
        "functions_encoded": meta["functions"],
        "bounds": meta["bounds"],
        "outside": meta["outside"],
        "real_code_run": meta["what"],
        "driver_build_s": round(build_s, 1),
    }
    C.write_evidence(pid, "translation_validation", cov, meta["assumptions"], time.time() - t0, len(unlisted))
    C.finish(pid, unlisted, list(known_hits.values()), inconclusive)


if __name__ == "__main__":
    main()
