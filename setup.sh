#!/bin/bash
# Run once after a fresh restore (offline). Builds the engine-T driver against /repo and warms the
# per-engine scratch crates (Kani target dirs, MIR extraction crate). Every check rebuilds
# incrementally from /repo's working tree anyway, so a failure here only makes the first check slower.
set -u
cd "$(dirname "$0")"
export CARGO_NET_OFFLINE=true
mkdir -p build evidence
cp /repo/Cargo.lock t/Cargo.lock 2>/dev/null
(cd t && cargo build --offline 2>&1 | tail -3) || echo "setup: engine-T driver build failed (checks will retry)"
# engine K: compile datafusion-common for Kani once per worker target dir
python3 - <<'EOF' || echo "setup: warming the Kani target dirs failed (the C42 check will do it itself)"
import os, sys
sys.path.insert(0, os.getcwd())
from k import c42
from k import kani_run as K
shapes = []
for n in range(1, 6):
    shapes += c42.trees(n)
lib, names = c42.gen_lib(shapes)
K.write_crate(c42.CRATE, "c42k", lib, 'datafusion-common = { path = "/repo/datafusion/common", default-features = false }')
ok, err = K.prepare_targets(c42.CRATE, c42.WORK, 14, os.path.join(c42.WORK, "kani-build.log"), "c42_cont_transform_tables")
print("kani target dirs warmed:", ok, err[-300:])
EOF
exit 0
