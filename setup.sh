#!/bin/bash
# Run once after a fresh restore (offline). Builds the engine-T driver against /repo and warms the
# per-engine scratch crates. Every check rebuilds incrementally from /repo's working tree anyway.
set -u
cd "$(dirname "$0")"
export CARGO_NET_OFFLINE=true
mkdir -p build evidence
cp /repo/Cargo.lock t/Cargo.lock
(cd t && cargo build 2>&1 | tail -3) || echo "setup: engine-T driver build failed (checks will retry)"
exit 0
