"""Shared helpers for the check drivers: evidence files, known findings, solver calls."""
import json
import os
import re
import subprocess
import sys
import time

VERIF = os.path.dirname(os.path.dirname(os.path.abspath(__file__)))
REPO = os.environ.get("VERIF_REPO", "/repo")
BUILD = os.path.join(VERIF, "build")
EVIDENCE = os.path.join(VERIF, "evidence")
KNOWN = os.path.join(VERIF, "known_findings.json")


def tier():
    t = os.environ.get("VERIF_TIER", "quick")
    return t if t in ("quick", "thorough") else "quick"


def seed():
    try:
        return int(os.environ.get("VERIF_SEED", "0"))
    except ValueError:
        return 0


def write_evidence(pid, level, coverage, assumptions, wall_s, violations, tier_=None):
    os.makedirs(EVIDENCE, exist_ok=True)
    ev = {
        "property_id": pid,
        "tier": tier_ or tier(),
        "seed": seed(),
        "level": level,
        "coverage": coverage,
        "assumptions": assumptions,
        "wall_s": round(wall_s, 2),
        "violations": violations,
    }
    p = os.path.join(EVIDENCE, pid + ".json")
    with open(p + ".tmp", "w") as f:
        json.dump(ev, f, indent=1, sort_keys=False)
        f.write("\n")
    os.replace(p + ".tmp", p)
    return p


def load_known(pid):
    """Returns (open_findings, fixed) for property pid. Never written at run time."""
    try:
        with open(KNOWN) as f:
            k = json.load(f)
    except FileNotFoundError:
        return [], []
    fs = [x for x in k.get("findings", []) if x.get("property") == pid]
    fx = [x for x in k.get("fixed", []) if x.get("property") == pid]
    return fs, fx


def match_known(pid, signature):
    """A violation is suppressed only if its exact signature is listed."""
    fs, _ = load_known(pid)
    for f in fs:
        if f.get("signature") == signature:
            return f
    return None


class SolverError(Exception):
    pass


def run_solver(smt_text, solver="z3", timeout_s=60, extra=None, cancel=None, grace_s=5.0):
    """Run one SMT-LIB script through a solver binary. Returns (list_of_answers, raw, secs).
    Any `(error` line or timeout makes the run inconclusive (SolverError)."""
    if solver == "z3":
        cmd = ["/usr/bin/z3", "-in", "-T:%d" % timeout_s]
    elif solver == "z3-new":
        cmd = ["z3-new", "-in", "-T:%d" % timeout_s]
    elif solver == "cvc5":
        cmd = ["cvc5", "--lang", "smt2", "--tlimit=%d" % (timeout_s * 1000), "--produce-models"]
    else:
        raise ValueError(solver)
    if extra:
        cmd += extra
    t0 = time.time()
    proc = subprocess.Popen(cmd, stdin=subprocess.PIPE, stdout=subprocess.PIPE, stderr=subprocess.PIPE, text=True)
    import threading
    res = {}

    def feed():
        try:
            res["out"], res["err"] = proc.communicate(smt_text)
        except Exception as e:  # noqa
            res["out"], res["err"] = "", str(e)

    th = threading.Thread(target=feed, daemon=True)
    th.start()
    cancelled_at = None
    while th.is_alive():
        th.join(0.05)
        now = time.time()
        if now - t0 > timeout_s + 30:
            proc.kill()
            th.join(5)
            raise SolverError("%s: wall timeout after %ds" % (solver, timeout_s))
        if cancel is not None and cancel.is_set():
            if cancelled_at is None:
                cancelled_at = now
            elif now - cancelled_at > grace_s:
                proc.kill()
                th.join(5)
                return ["cancelled"], "", time.time() - t0
    dt = time.time() - t0
    out = res.get("out", "")
    if "(error" in out or "(error" in res.get("err", ""):
        raise SolverError("%s: error line in output: %s" % (solver, (out + res.get("err", ""))[:400]))
    answers = [l.strip() for l in out.splitlines() if l.strip() in ("sat", "unsat", "unknown", "timeout")]
    return answers, out, dt


def sh(cmd, cwd=None, env=None, timeout=None, check=False):
    e = dict(os.environ)
    if env:
        e.update(env)
    p = subprocess.run(cmd, cwd=cwd, env=e, capture_output=True, text=True, timeout=timeout, shell=isinstance(cmd, str))
    if check and p.returncode != 0:
        raise RuntimeError("command failed: %s\n%s\n%s" % (cmd, p.stdout[-2000:], p.stderr[-2000:]))
    return p


def finish(pid, violations_unlisted, known_hits, inconclusive, msgs=()):
    """Common exit protocol. violations_unlisted: list of (signature, replay_path)."""
    for m in msgs:
        print(m)
    for k in known_hits:
        print("KNOWN-FINDING: property=%s %s" % (pid, k))
    if violations_unlisted:
        for sig, path in violations_unlisted:
            print("VIOLATION property=%s replay=%s" % (pid, path))
        sys.exit(1)
    if inconclusive:
        for i in inconclusive:
            print("INCONCLUSIVE property=%s %s" % (pid, i))
        sys.exit(2)
    print("OK property=%s" % pid)
    sys.exit(0)
