"""Rust-aware item extraction.

A small lexer that understands line/block (nested) comments, string / raw string /
byte string literals, char literals and lifetimes, so that brace matching is exact.
`extract_item(src, header_regex)` returns the text of the item whose header matches
(from the first attribute / doc comment line above it up to the closing brace or `;`).

If an item is not found, AnchorMoved is raised: callers turn this into exit code 2
("anchor moved"), never 0 and never 1.
"""
import re


class AnchorMoved(Exception):
    pass


def _skip_ws_tokens(src, i):
    return i


def mask_noncode(src):
    """Return a string of the same length as src where the *contents* of comments,
    strings and char literals are replaced by spaces (newlines kept)."""
    out = list(src)
    n = len(src)
    i = 0

    def blank(a, b):
        for k in range(a, b):
            if out[k] != "\n":
                out[k] = " "

    while i < n:
        c = src[i]
        if c == "/" and i + 1 < n and src[i + 1] == "/":
            j = src.find("\n", i)
            if j < 0:
                j = n
            blank(i, j)
            i = j
        elif c == "/" and i + 1 < n and src[i + 1] == "*":
            depth = 1
            j = i + 2
            while j < n and depth > 0:
                if src.startswith("/*", j):
                    depth += 1
                    j += 2
                elif src.startswith("*/", j):
                    depth -= 1
                    j += 2
                else:
                    j += 1
            blank(i, j)
            i = j
        elif c == '"' or (c == "b" and i + 1 < n and src[i + 1] == '"' and not (i > 0 and (src[i - 1].isalnum() or src[i - 1] == "_"))):
            j = i + (2 if c == "b" else 1)
            while j < n and src[j] != '"':
                if src[j] == "\\":
                    j += 1
                j += 1
            blank(i + 1, j)
            i = j + 1
        elif (c == "r" or (c == "b" and i + 1 < n and src[i + 1] == "r")) and not (i > 0 and (src[i - 1].isalnum() or src[i - 1] == "_")):
            j = i + (2 if c == "b" else 1)
            k = j
            while k < n and src[k] == "#":
                k += 1
            if k < n and src[k] == '"':
                hashes = k - j
                end = src.find('"' + "#" * hashes, k + 1)
                if end < 0:
                    end = n
                blank(k + 1, end)
                i = end + 1 + hashes
            else:
                i += 1
        elif c == "'":
            # char literal or lifetime
            if i + 2 < n and src[i + 1] == "\\":
                j = src.find("'", i + 2)
                if j < 0:
                    j = n
                blank(i + 1, j)
                i = j + 1
            elif i + 2 < n and src[i + 2] == "'":
                blank(i + 1, i + 2)
                i += 3
            else:
                i += 1  # lifetime
        else:
            i += 1
    return "".join(out)


def _item_end(masked, start):
    """From `start` (the beginning of the item header) find the end of the item:
    the matching `}` of the first `{` at paren/bracket depth 0, or a `;` before any `{`."""
    n = len(masked)
    i = start
    depth_par = 0
    while i < n:
        c = masked[i]
        if c in "([":
            depth_par += 1
        elif c in ")]":
            depth_par -= 1
        elif c == ";" and depth_par == 0:
            return i + 1
        elif c == "{" and depth_par == 0:
            d = 1
            i += 1
            while i < n and d > 0:
                if masked[i] == "{":
                    d += 1
                elif masked[i] == "}":
                    d -= 1
                i += 1
            return i
        i += 1
    raise AnchorMoved("unterminated item")


def _attr_start(src, masked, start):
    """Walk upwards over contiguous attribute / doc-comment lines."""
    line_start = src.rfind("\n", 0, start) + 1
    while line_start > 0:
        prev_end = line_start - 1
        prev_start = src.rfind("\n", 0, prev_end) + 1
        line = src[prev_start:prev_end].strip()
        if line.startswith("#[") or line.startswith("///") or line.startswith("#!["):
            line_start = prev_start
        else:
            break
    return line_start


def find_item(src, header_regex, which=0, masked=None):
    """Return (start, end) of the `which`-th item whose header matches header_regex.
    The regex is matched against comment/string-masked source at line starts
    (leading whitespace allowed)."""
    if masked is None:
        masked = mask_noncode(src)
    pat = re.compile(r"^[ \t]*(?:" + header_regex + ")", re.M)
    ms = list(pat.finditer(masked))
    if len(ms) <= which:
        raise AnchorMoved("item not found: /%s/ (#%d)" % (header_regex, which))
    m = ms[which]
    hs = m.start()
    end = _item_end(masked, hs)
    start = _attr_start(src, masked, hs)
    return start, end


def extract_item(src, header_regex, which=0, strip_attrs=False):
    masked = mask_noncode(src)
    s, e = find_item(src, header_regex, which, masked)
    text = src[s:e]
    if strip_attrs:
        pat = re.compile(r"^[ \t]*(?:" + header_regex + ")", re.M)
        m = pat.search(mask_noncode(text))
        text = text[m.start():]
    return text


def extract_fn_from_impl(impl_text, fn_name):
    """Extract a method (with its attributes) out of an impl block's text."""
    return extract_item(
        impl_text,
        r"(?:pub(?:\([a-z: ]+\))?\s+)?(?:const\s+)?(?:async\s+)?(?:unsafe\s+)?fn\s+" + re.escape(fn_name) + r"\b",
    )


def strip_inner_docs(src):
    return "\n".join(l for l in src.split("\n") if not l.lstrip().startswith("//!"))
